// Copyright 2011 The Go Authors. All rights reserved.
// Use of this source code is governed by a BSD-style
// license that can be found in the LICENSE file.

package ssh

import (
	"encoding/binary"
	"errors"
	"fmt"
	"io"
	"log"
	"sync"
)

const (
	minPacketLength = 9
	// channelMaxPacket contains the maximum number of bytes that will be
	// sent in a single packet. As per RFC 4253, section 6.1, 32k is also
	// the minimum.
	channelMaxPacket = 1 << 15
	// We follow OpenSSH here.
	channelWindowSize = 64 * channelMaxPacket
)

// NewChannel represents an incoming request to a channel. It must either be
// accepted for use by calling Accept, or rejected by calling Reject.
type NewChannel interface {
	// Accept accepts the channel creation request. It returns the Channel
	// and a Go channel containing SSH requests. The Go channel must be
	// serviced otherwise the Channel will hang.
	Accept() (Channel, <-chan *Request, error)

	// Reject rejects the channel creation request. After calling
	// this, no other methods on the Channel may be called.
	Reject(reason RejectionReason, message string) error

	// ChannelType returns the type of the channel, as supplied by the
	// client.
	ChannelType() string

	// ExtraData returns the arbitrary payload for this channel, as supplied
	// by the client. This data is specific to the channel type.
	ExtraData() []byte
}

// A Channel is an ordered, reliable, flow-controlled, duplex stream
// that is multiplexed over an SSH connection.
type Channel interface {
	// Read reads up to len(data) bytes from the channel.
	Read(data []byte) (int, error)

	// Write writes len(data) bytes to the channel.
	Write(data []byte) (int, error)

	// Close signals end of channel use. No data may be sent after this
	// call.
	Close() error

	// CloseWrite signals the end of sending in-band
	// data. Requests may still be sent, and the other side may
	// still send data
	CloseWrite() error

	// SendRequest sends a channel request.  If wantReply is true,
	// it will wait for a reply and return the result as a
	// boolean, otherwise the return value will be false. Channel
	// requests are out-of-band messages so they may be sent even
	// if the data stream is closed or blocked by flow control.
	// If the channel is closed before a reply is returned, io.EOF
	// is returned.
	SendRequest(name string, wantReply bool, payload []byte) (bool, error)

	// Stderr returns an io.ReadWriter that writes to this channel
	// with the extended data type set to stderr. Stderr may
	// safely be read and written from a different goroutine than
	// Read and Write respectively.
	Stderr() io.ReadWriter
}

// Request is a request sent outside of the normal stream of
// data. Requests can either be specific to an SSH channel, or they
// can be global.
type Request struct {
	Type      string
	WantReply bool
	Payload   []byte

	ch  *channel
	mux *mux
}

// Reply sends a response to a request. It must be called for all requests
// where WantReply is true and is a no-op otherwise. The payload argument is
// ignored for replies to channel-specific requests.
func (r *Request) Reply(ok bool, payload []byte) error {
	if !r.WantReply {
		return nil
	}

	if r.ch == nil {
		return r.mux.ackRequest(ok, payload)
	}

	return r.ch.ackRequest(ok)
}

// RejectionReason is an enumeration used when rejecting channel creation
// requests. See RFC 4254, section 5.1.
type RejectionReason uint32

const (
	Prohibited RejectionReason = iota + 1
	ConnectionFailed
	UnknownChannelType
	ResourceShortage
)

// String converts the rejection reason to human readable form.
func (r RejectionReason) String() string {
	switch r {
	case Prohibited:
		return "administratively prohibited"
	case ConnectionFailed:
		return "connect failed"
	case UnknownChannelType:
		return "unknown channel type"
	case ResourceShortage:
		return "resource shortage"
	}
	return fmt.Sprintf("unknown reason %d", int(r))
}

func min(a uint32, b int) uint32 {
	if a < uint32(b) {
		return a
	}
	return uint32(b)
}

type channelDirection uint8

const (
	channelInbound channelDirection = iota
	channelOutbound
)

// channel is an implementation of the Channel interface that works
// with the mux class.
type channel struct {
	// R/O after creation
	chanType          string
	extraData         []byte
	localId, remoteId uint32

	// maxIncomingPayload and maxRemotePayload are the maximum
	// payload sizes of normal and extended data packets for
	// receiving and sending, respectively. The wire packet will
	// be 9 or 13 bytes larger (excluding encryption overhead).
	maxIncomingPayload uint32
	maxRemotePayload   uint32

	mux *mux

	// decided is set to true if an accept or reject message has been sent
	// (for outbound channels) or received (for inbound channels).
	decided bool

	// direction contains either channelOutbound, for channels created
	// locally, or channelInbound, for channels created by the peer.
	direction channelDirection

	// Pending internal channel messages.
	msg chan interface{}

	// Since requests have no ID, there can be only one request
	// with WantReply=true outstanding.  This lock is held by a
	// goroutine that has such an outgoing request pending.
	sentRequestMu sync.Mutex

	incomingRequests chan *Request

	sentEOF bool

	// thread-safe data
	remoteWin  window
	pending    *buffer
	extPending *buffer

	// windowMu protects myWindow, the flow-control window.
	windowMu sync.Mutex
	myWindow uint32

	// writeMu serializes calls to mux.conn.writePacket() and
	// protects sentClose and packetPool. This mutex must be
	// different from windowMu, as writePacket can block if there
	// is a key exchange pending.
	writeMu   sync.Mutex
	sentClose bool

	// packetPool has a buffer for each extended channel ID to
	// save allocations during writes.
	packetPool map[uint32][]byte
}

// writePacket sends a packet. If the packet is a channel close, it updates
// sentClose. This method takes the lock c.writeMu.
func (ch *channel) writePacket(packet []byte) error {
	ch.writeMu.Lock()
	if ch.sentClose {
		ch.writeMu.Unlock()
		return io.EOF
	}
	ch.sentClose = (packet[0] == msgChannelClose)
	err := ch.mux.conn.writePacket(packet)
	ch.writeMu.Unlock()
	return err
}

func (ch *channel) sendMessage(msg interface{}) error {
	if debugMux {
		log.Printf("send(%d): %#v", ch.mux.chanList.offset, msg)
	}

	p := Marshal(msg)
	binary.BigEndian.PutUint32(p[1:], ch.remoteId)
	return ch.writePacket(p)
}

// WriteExtended writes data to a specific extended stream. These streams are
// used, for example, for stderr.
func (ch *channel) WriteExtended(data []byte, extendedCode uint32) (n int, err error) {
	if ch.sentEOF {
		return 0, io.EOF
	}
	// 1 byte message type, 4 bytes remoteId, 4 bytes data length
	opCode := byte(msgChannelData)
	headerLength := uint32(9)
	if extendedCode > 0 {
		headerLength += 4
		opCode = msgChannelExtendedData
	}

	ch.writeMu.Lock()
	packet := ch.packetPool[extendedCode]
	// We don't remove the buffer from packetPool, so
	// WriteExtended calls from different goroutines will be
	// flagged as errors by the race detector.
	ch.writeMu.Unlock()

	for len(data) > 0 {
		space := min(ch.maxRemotePayload, len(data))
		if space, err = ch.remoteWin.reserve(space); err != nil {
			return n, err
		}
		if want := headerLength + space; uint32(cap(packet)) < want {
			packet = make([]byte, want)
		} else {
			packet = packet[:want]
		}

		todo := data[:space]

		packet[0] = opCode
		binary.BigEndian.PutUint32(packet[1:], ch.remoteId)
		if extendedCode > 0 {
			binary.BigEndian.PutUint32(packet[5:], uint32(extendedCode))
		}
		binary.BigEndian.PutUint32(packet[headerLength-4:], uint32(len(todo)))
		copy(packet[headerLength:], todo)
		if err = ch.writePacket(packet); err != nil {
			return n, err
		}

		n += len(todo)
		data = data[len(todo):]
	}

	ch.writeMu.Lock()
	ch.packetPool[extendedCode] = packet
	ch.writeMu.Unlock()

	return n, err
}

func (ch *channel) handleData(packet []byte) error {
	headerLen := 9
	isExtendedData := packet[0] == msgChannelExtendedData
	if isExtendedData {
		headerLen = 13
	}
	if len(packet) < headerLen {
		// malformed data packet
		return parseError(packet[0])
	}

	var extended uint32
	if isExtendedData {
		extended = binary.BigEndian.Uint32(packet[5:])
	}

	length := binary.BigEndian.Uint32(packet[headerLen-4 : headerLen])
	if length == 0 {
		return nil
	}
	if length > ch.maxIncomingPayload {
		// TODO(hanwen): should send Disconnect?
		return errors.New("ssh: incoming packet exceeds maximum payload size")
	}

	data := packet[headerLen:]
	if length != uint32(len(data)) {
		return errors.New("ssh: wrong packet length")
	}

	ch.windowMu.Lock()
	if ch.myWindow < length {
		ch.windowMu.Unlock()
		// TODO(hanwen): should send Disconnect with reason?
		return errors.New("ssh: remote side wrote too much")
	}
	ch.myWindow -= length
	ch.windowMu.Unlock()

	if extended == 1 {
		ch.extPending.write(data)
	} else if extended > 0 {
		// discard other extended data.
	} else {
		ch.pending.write(data)
	}
	return nil
}

func (c *channel) adjustWindow(n uint32) error {
	c.windowMu.Lock()
	// Since myWindow is managed on our side, and can never exceed
	// the initial window setting, we don't worry about overflow.
	c.myWindow += uint32(n)
	c.windowMu.Unlock()
	return c.sendMessage(windowAdjustMsg{
		AdditionalBytes: uint32(n),
	})
}

func (c *channel) ReadExtended(data []byte, extended uint32) (n int, err error) {
	switch extended {
	case 1:
		n, err = c.extPending.Read(data)
	case 0:
		n, err = c.pending.Read(data)
	default:
		return 0, fmt.Errorf("ssh: extended code %d unimplemented", extended)
	}

	if n > 0 {
		err = c.adjustWindow(uint32(n))
		// sendWindowAdjust can return io.EOF if the remote
		// peer has closed the connection, however we want to
		// defer forwarding io.EOF to the caller of Read until
		// the buffer has been drained.
		if n > 0 && err == io.EOF {
			err = nil
		}
	}

	return n, err
}

func (c *channel) close() {
	c.pending.eof()
	c.extPending.eof()
	close(c.msg)
	close(c.incomingRequests)
	c.writeMu.Lock()
	// This is not necessary for a normal channel teardown, but if
	// there was another error, it is.
	c.sentClose = true
	c.writeMu.Unlock()
	// Unblock writers.
	c.remoteWin.close()
}

// responseMessageReceived is called when a success or failure message is
// received on a channel to check that such a message is reasonable for the
// given channel.
func (ch *channel) responseMessageReceived() error {
	if ch.direction == channelInbound {
		return errors.New("ssh: channel response message received on inbound channel")
	}
	if ch.decided {
		return errors.New("ssh: duplicate response received for channel")
	}
	ch.decided = true
	return nil
}

func (ch *channel) handlePacket(packet []byte) error {
	switch packet[0] {
	case msgChannelData, msgChannelExtendedData:
		return ch.handleData(packet)
	case msgChannelClose:
		ch.sendMessage(channelCloseMsg{PeersID: ch.remoteId})
		ch.mux.chanList.remove(ch.localId)
		ch.close()
		return nil
	case msgChannelEOF:
		// RFC 4254 is mute on how EOF affects dataExt messages but
		// it is logical to signal EOF at the same time.
		ch.extPending.eof()
		ch.pending.eof()
		return nil
	}

	decoded, err := decode(packet)
	if err != nil {
		return err
	}

	switch msg := decoded.(type) {
	case *channelOpenFailureMsg:
		if err := ch.responseMessageReceived(); err != nil {
			return err
		}
		ch.mux.chanList.remove(msg.PeersID)
		ch.msg <- msg
	case *channelOpenConfirmMsg:
		if err := ch.responseMessageReceived(); err != nil {
			return err
		}
		if msg.MaxPacketSize < minPacketLength || msg.MaxPacketSize > 1<<31 {
			return fmt.Errorf("ssh: invalid MaxPacketSize %d from peer", msg.MaxPacketSize)
		}
		ch.remoteId = msg.MyID
		ch.maxRemotePayload = msg.MaxPacketSize
		ch.remoteWin.add(msg.MyWindow)
		ch.msg <- msg
	case *windowAdjustMsg:
		if !ch.remoteWin.add(msg.AdditionalBytes) {
			return fmt.Errorf("ssh: invalid window update for %d bytes", msg.AdditionalBytes)
		}
	case *channelRequestMsg:
		req := Request{
			Type:      msg.Request,
			WantReply: msg.WantReply,
			Payload:   msg.RequestSpecificData,
			ch:        ch,
		}

		ch.incomingRequests <- &req
	default:
		ch.msg <- msg
	}
	return nil
}

func (m *mux) newChannel(chanType string, direction channelDirection, extraData []byte) *channel {
	ch := &channel{
		remoteWin:        window{Cond: newCond()},
		myWindow:         channelWindowSize,
		pending:          newBuffer(),
		extPending:       newBuffer(),
		direction:        direction,
		incomingRequests: make(chan *Request, chanSize),
		msg:              make(chan interface{}, chanSize),
		chanType:         chanType,
		extraData:        extraData,
		mux:              m,
		packetPool:       make(map[uint32][]byte),
	}
	ch.localId = m.chanList.add(ch)
	return ch
}

var errUndecided = errors.New("ssh: must Accept or Reject channel")
var errDecidedAlready = errors.New("ssh: can call Accept or Reject only once")

type extChannel struct {
	code uint32
	ch   *channel
}

func (e *extChannel) Write(data []byte) (n int, err error) {
	return e.ch.WriteExtended(data, e.code)
}

func (e *extChannel) Read(data []byte) (n int, err error) {
	return e.ch.ReadExtended(data, e.code)
}

func (ch *channel) Accept() (Channel, <-chan *Request, error) {
	if ch.decided {
		return nil, nil, errDecidedAlready
	}
	ch.maxIncomingPayload = channelMaxPacket
	confirm := channelOpenConfirmMsg{
		PeersID:       ch.remoteId,
		MyID:          ch.localId,
		MyWindow:      ch.myWindow,
		MaxPacketSize: ch.maxIncomingPayload,
	}
	ch.decided = true
	if err := ch.sendMessage(confirm); err != nil {
		return nil, nil, err
	}

	return ch, ch.incomingRequests, nil
}

func (ch *channel) Reject(reason RejectionReason, message string) error {
	if ch.decided {
		return errDecidedAlready
	}
	reject := channelOpenFailureMsg{
		PeersID:  ch.remoteId,
		Reason:   reason,
		Message:  message,
		Language: "en",
	}
	ch.decided = true
	return ch.sendMessage(reject)
}

func (ch *channel) Read(data []byte) (int, error) {
	if !ch.decided {
		return 0, errUndecided
	}
	return ch.ReadExtended(data, 0)
}

func (ch *channel) Write(data []byte) (int, error) {
	if !ch.decided {
		return 0, errUndecided
	}
	return ch.WriteExtended(data, 0)
}

func (ch *channel) CloseWrite() error {
	if !ch.decided {
		return errUndecided
	}
	ch.sentEOF = true
	return ch.sendMessage(channelEOFMsg{
		PeersID: ch.remoteId})
}

func (ch *channel) Close() error {
	if !ch.decided {
		return errUndecided
	}

	return ch.sendMessage(channelCloseMsg{
		PeersID: ch.remoteId})
}

// Extended returns an io.ReadWriter that sends and receives data on the given,
// SSH extended stream. Such streams are used, for example, for stderr.
func (ch *channel) Extended(code uint32) io.ReadWriter {
	if !ch.decided {
		return nil
	}
	return &extChannel{code, ch}
}

func (ch *channel) Stderr() io.ReadWriter {
	return ch.Extended(1)
}

func (ch *channel) SendRequest(name string, wantReply bool, payload []byte) (bool, error) {
	if !ch.decided {
		return false, errUndecided
	}

	if wantReply {
		ch.sentRequestMu.Lock()
		defer ch.sentRequestMu.Unlock()
	}

	msg := channelRequestMsg{
		PeersID:             ch.remoteId,
		Request:             name,
		WantReply:           wantReply,
		RequestSpecificData: payload,
	}

	if err := ch.sendMessage(msg); err != nil {
		return false, err
	}

	if wantReply {
		m, ok := (<-ch.msg)
		if !ok {
			return false, io.EOF
		}
		switch m.(type) {
		case *channelRequestFailureMsg:
			return false, nil
		case *channelRequestSuccessMsg:
			return true, nil
		default:
			return false, fmt.Errorf("ssh: unexpected response to channel request: %#v", m)
		}
	}

	return false, nil
}

// ackRequest either sends an ack or nack to the channel request.
func (ch *channel) ackRequest(ok bool) error {
	if !ch.decided {
		return errUndecided
	}

	var msg interface{}
	if !ok {
		msg = channelRequestFailureMsg{
			PeersID: ch.remoteId,
		}
	} else {
		msg = channelRequestSuccessMsg{
			PeersID: ch.remoteId,
		}
	}
	return ch.sendMessage(msg)
}

func (ch *channel) ChannelType() string {
	return ch.chanType
}

func (ch *channel) ExtraData() []byte {
	return ch.extraData
}
