// Copyright 2013 The Go Authors. All rights reserved.
// Use of this source code is governed by a BSD-style
// license that can be found in the LICENSE file.

package ssh

import (
	"fmt"
	"net"
)

// OpenChannelError is returned if the other side rejects an
// OpenChannel request.
type OpenChannelError struct {
	Reason  RejectionReason
	Message string
}

func (e *OpenChannelError) Error() string {
	return fmt.Sprintf("ssh: rejected: %s (%s)", e.Reason, e.Message)
}

// ConnMetadata holds metadata for the connection.
type ConnMetadata interface {
	// User returns the user ID for this connection.
	User() string

	// SessionID returns the session hash, also denoted by H.
	SessionID() []byte

	// ClientVersion returns the client's version string as hashed
	// into the session ID.
	ClientVersion() []byte

	// ServerVersion returns the server's version string as hashed
	// into the session ID.
	ServerVersion() []byte

	// RemoteAddr returns the remote address for this connection.
	RemoteAddr() net.Addr

	// LocalAddr returns the local address for this connection.
	LocalAddr() net.Addr
}

// Conn represents an SSH connection for both server and client roles.
// Conn is the basis for implementing an application layer, such
// as ClientConn, which implements the traditional shell access for
// clients.
type Conn interface {
	ConnMetadata

	// SendRequest sends a global request, and returns the
	// reply. If wantReply is true, it returns the response status
	// and payload. See also RFC4254, section 4.
	SendRequest(name string, wantReply bool, payload []byte) (bool, []byte, error)

	// OpenChannel tries to open an channel. If the request is
	// rejected, it returns *OpenChannelError. On success it returns
	// the SSH Channel and a Go channel for incoming, out-of-band
	// requests. The Go channel must be serviced, or the
	// connection will hang.
	OpenChannel(name string, data []byte) (Channel, <-chan *Request, error)

	// Close closes the underlying network connection
	Close() error

	// Wait blocks until the connection has shut down, and returns the
	// error causing the shutdown.
	Wait() error

	// TODO(hanwen): consider exposing:
	//   RequestKeyChange
	//   Disconnect
}

// DiscardRequests consumes and rejects all requests from the
// passed-in channel.
func DiscardRequests(in <-chan *Request) {
	for req := range in {
		if req.WantReply {
			req.Reply(false, nil)
		}
	}
}

// A connection represents an incoming connection.
type connection struct {
	transport *handshakeTransport
	sshConn

	// The connection protocol.
	*mux
}

func (c *connection) Close() error {
	return c.sshConn.conn.Close()
}

// sshconn provides net.Conn metadata, but disallows direct reads and
// writes.
type sshConn struct {
	conn net.Conn

	user          string
	sessionID     []byte
	clientVersion []byte
	serverVersion []byte
}

func dup(src []byte) []byte {
	dst := make([]byte, len(src))
	copy(dst, src)
	return dst
}

func (c *sshConn) User() string {
	return c.user
}

func (c *sshConn) RemoteAddr() net.Addr {
	return c.conn.RemoteAddr()
}

func (c *sshConn) Close() error {
	return c.conn.Close()
}

func (c *sshConn) LocalAddr() net.Addr {
	return c.conn.LocalAddr()
}

func (c *sshConn) SessionID() []byte {
	return dup(c.sessionID)
}

func (c *sshConn) ClientVersion() []byte {
	return dup(c.clientVersion)
}

func (c *sshConn) ServerVersion() []byte {
	return dup(c.serverVersion)
}
