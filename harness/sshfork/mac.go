// Copyright 2012 The Go Authors. All rights reserved.
// Use of this source code is governed by a BSD-style
// license that can be found in the LICENSE file.

package ssh

// Message authentication support

import (
	"crypto/hmac"
	"crypto/sha1"
	"crypto/sha256"
	"hash"
)

type macMode struct {
	keySize int
	etm     bool
	new     func(key []byte) hash.Hash
}

// truncatingMAC wraps around a hash.Hash and truncates the output digest to
// a given size.
type truncatingMAC struct {
	length int
	hmac   hash.Hash
}

func (t truncatingMAC) Write(data []byte) (int, error) {
	return t.hmac.Write(data)
}

func (t truncatingMAC) Sum(in []byte) []byte {
	out := t.hmac.Sum(in)
	return out[:len(in)+t.length]
}

func (t truncatingMAC) Reset() {
	t.hmac.Reset()
}

func (t truncatingMAC) Size() int {
	return t.length
}

func (t truncatingMAC) BlockSize() int { return t.hmac.BlockSize() }

var macModes = map[string]*macMode{
	"hmac-sha2-256-etm@openssh.com": {32, true, func(key []byte) hash.Hash {
		return hmac.New(sha256.New, key)
	}},
	"hmac-sha2-256": {32, false, func(key []byte) hash.Hash {
		return hmac.New(sha256.New, key)
	}},
	"hmac-sha1": {20, false, func(key []byte) hash.Hash {
		return hmac.New(sha1.New, key)
	}},
	"hmac-sha1-96": {20, false, func(key []byte) hash.Hash {
		return truncatingMAC{12, hmac.New(sha1.New, key)}
	}},
}
