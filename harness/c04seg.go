package main

import (
	"bytes"
	"encoding/hex"
	"fmt"
	"os"
	"sort"
	"strings"

	"github.com/honeytrap/honeytrap/event"
)

// C04: every client command is captured exactly once, however the stream is segmented.
//
// seg <service> <segment hex> ...     : one TCP connection delivering exactly these segments (one per Read at most),
//                                       then the client's end of stream -> the captured events of that connection,
//                                       canonical: "<kind>:<field hex>,<field hex> ..." | "-"
// @seg <service> <segment hex> ...    : the same, outside the alphabet the Lean model covers (oracle only)
// @lock <service> <segment hex> ...   : lock-step delivery (next segment after the server answered) (oracle only)
//
// Oracle (implementation only): the events equal those of the same bytes delivered in one piece, and, for
// generated dialogues, the expected list computed here from the commands that were rendered.

type unit struct {
	bytes  []byte
	expect []string // canonical events this unit must produce (when the session is still open)
	closes bool     // the session ends after this unit
}

func hxs(fields ...string) string {
	var p []string
	for _, f := range fields {
		p = append(p, hx([]byte(f)))
	}
	return strings.Join(p, ",")
}

// canonEvents renders the captured events of one connection for a service.
func canonEvents(svc string, evs []event.Event) []string {
	var r []string
	for _, e := range evs {
		switch svc {
		case "ftp":
			if e.Get("category") == "ftp" {
				r = append(r, "ftp:"+hxs(e.Get("ftp.command")))
			}
		case "telnet":
			switch e.Get("type") {
			case "password-authentication":
				r = append(r, "telnet-auth:"+hxs(e.Get("telnet.username"), e.Get("telnet.password")))
			case "session":
				r = append(r, "telnet-cmd:"+hxs(e.Get("telnet.command")))
			}
		case "memcached", "memcachedu":
			if e.Get("type") == "memcached-command" {
				r = append(r, "mc-cmd:"+hxs(e.Get("memcached.command")))
			} else if strings.HasPrefix(e.Get("type"), "memcached-") {
				pl, _ := hex.DecodeString(e.Get("payload-hex"))
				r = append(r, "mc-store:"+hxs(e.Get("memcached.command"), e.Get("memcached.key"), e.Get("memcached.flags"), e.Get("memcached.expire-time"), e.Get("memcached.bytes"), string(pl)))
			}
		case "redis":
			if e.Get("type") == "redis-command" {
				r = append(r, "redis:"+hxs(e.Get("redis.command")))
			}
		case "smtp":
			switch e.Get("type") {
			case "input":
				r = append(r, "smtp-line:"+hxs(e.Get("smtp.line")))
			case "email":
				var hs []string
				e.Range(func(k, v interface{}) bool {
					ks := fmt.Sprint(k)
					if strings.HasPrefix(ks, "smtp.") && ks != "smtp.body" && ks != "smtp.line" {
						hs = append(hs, strings.TrimPrefix(ks, "smtp.")+"="+fmt.Sprint(v))
					}
					return true
				})
				sort.Strings(hs)
				r = append(r, "smtp-email:"+hxs(append([]string{e.Get("smtp.body")}, hs...)...))
			}
		case "dns":
			if e.Get("category") == "dns" {
				r = append(r, "dns:"+hxs(e.Get("dns.id"), e.Get("dns.opcode")))
			}
		case "tftp":
			if e.Get("category") == "tftp" {
				r = append(r, "tftp:"+hxs(e.Get("type"), strings.TrimSuffix(e.Get("tftp.filename"), "\x00"), strings.TrimSuffix(e.Get("tftp.mode"), "\x00")))
			}
		case "snmp":
			if e.Get("category") == "snmp" {
				r = append(r, "snmp:"+hxs(e.Get("type"), e.Get("snmp.community")))
			}
		case "counterstrike":
			if e.Get("category") == "counterstrike" {
				pl, _ := hex.DecodeString(e.Get("payload-hex"))
				r = append(r, "cs:"+hxs(e.Get("counterstrike.query"), string(pl)))
			}
		case "echou":
			if e.Get("category") == "echo" {
				pl, _ := hex.DecodeString(e.Get("payload-hex"))
				r = append(r, "echo:"+hxs(string(pl)))
			}
		case "http":
			if e.Get("type") == "request" {
				var hs []string
				e.Range(func(k, v interface{}) bool {
					ks := fmt.Sprint(k)
					if strings.HasPrefix(ks, "http.header.") {
						vals, _ := v.([]string)
						hs = append(hs, strings.TrimPrefix(ks, "http.header.")+"="+strings.Join(vals, "\x00"))
					}
					return true
				})
				sort.Strings(hs)
				pl, _ := hex.DecodeString(e.Get("payload-hex"))
				r = append(r, "http:"+hxs(append([]string{e.Get("http.method"), e.Get("http.url"), e.Get("http.proto"), e.Get("http.host"), string(pl)}, hs...)...))
			}
		}
	}
	return r
}

func joinEv(es []string) string {
	if len(es) == 0 {
		return "-"
	}
	return strings.Join(es, " ")
}

var c04lab *svcLab

func c04Lab() *svcLab {
	if c04lab == nil {
		os.Stdout = devNull // smtp and ntp print client data to stdout; records go through `out`, which holds the real one
		l, err := newSvcLab("ftp", "telnet", "smtp", "redis", "memcached", "memcachedu", "http", "echo", "echou", "dns", "tftp", "snmp", "counterstrike",
			"elasticsearch", "docker", "eos", "ethereum", "cwmp", "ipp", "ldap")
		if err != nil {
			panic(err)
		}
		c04lab = l
	}
	return c04lab
}

func segLine(prefix, svc string, segs [][]byte) string {
	p := []string{prefix, svc}
	for _, s := range segs {
		if len(s) > 0 {
			p = append(p, hx(s))
		}
	}
	if len(p) == 2 {
		p = append(p, "-")
	}
	return strings.Join(p, " ")
}

func flat(segs [][]byte) []byte {
	var b []byte
	for _, s := range segs {
		b = append(b, s...)
	}
	return b
}

// whole-stream results are cached: the reference for segmentation independence
var wholeCache = map[string]string{}

func runSeg(prefix, svc string, segs [][]byte, expect []string, haveExpect bool) {
	lab := c04Lab()
	line := segLine(prefix, svc, segs)
	verdict := "ok"
	viol := func(sig, d string) {
		if verdict == "ok" {
			verdict = "viol:" + sig + ":" + d
		}
	}
	all := flat(segs)
	key := svc + "/" + string(all)
	ref, ok := wholeCache[key]
	if !ok {
		r := lab.stream(svc, [][]byte{all}, false, len(expect))
		ref = joinEv(canonEvents(svc, r.events))
		if !r.returned {
			ref = "hang"
		}
		wholeCache[key] = ref
	}
	r := lab.stream(svc, segs, prefix == "@lock", len(expect))
	got := joinEv(canonEvents(svc, r.events))
	if !r.returned {
		got = "hang"
		viol("handler-does-not-return", svc+": handle() still running 10 s after the client's end of stream")
	}
	if got != ref {
		viol("segmentation-changes-events", fmt.Sprintf("%s: %d segments give %s, the same bytes in one piece give %s", svc, len(segs), clip(got, 400), clip(ref, 400)))
	}
	if haveExpect {
		if want := joinEv(expect); got != want {
			viol("events-differ-from-commands", fmt.Sprintf("%s: captured %s, sent commands mean %s", svc, clip(got, 400), clip(want, 400)))
		}
	}
	emit(line, modelView(svc, got), verdict, got != "-")
}

// modelView: what the Lean model renders (http: method, target, payload — headers, host and proto are judged by the
// oracle only)
func modelView(svc, got string) string {
	if svc != "http" || got == "-" || got == "hang" {
		return got
	}
	var r []string
	for _, e := range strings.Fields(got) {
		f := strings.Split(strings.TrimPrefix(e, "http:"), ",")
		if len(f) >= 5 {
			r = append(r, "http:"+f[0]+","+f[1]+","+f[4])
		}
	}
	return strings.Join(r, " ")
}

// ---- dialogues ----

func dialogue(units []unit) ([]byte, []string) {
	var b []byte
	var ex []string
	open := true
	for _, u := range units {
		b = append(b, u.bytes...)
		if open {
			ex = append(ex, u.expect...)
			if u.closes {
				open = false
			}
		}
	}
	return b, ex
}

func eol(r *Rng, crlfOnly bool) string {
	if crlfOnly || r.Intn(4) != 0 {
		return "\r\n"
	}
	return "\n"
}

func word(r *Rng, max int) string {
	n := r.Range(1, max)
	b := make([]byte, n)
	for i := range b {
		b[i] = "abcdefghijklmnopqrstuvwxyzABCXYZ0123456789._-/"[r.Intn(46)]
	}
	return string(b)
}

func genFTP(r *Rng) []unit {
	var us []unit
	verbs := []string{"USER", "PASS", "SYST", "PWD", "NOOP", "FEAT", "TYPE", "CWD", "MKD", "DELE", "XYZZY", "user", "Stat", "HELP", "MODE", "STRU", "ALLO", "SIZE", "RNFR"}
	n := r.Range(1, 8)
	for i := 0; i < n; i++ {
		v := verbs[r.Intn(len(verbs))]
		l := v
		switch r.Intn(4) {
		case 0:
		case 1:
			l += " " + word(r, 12)
		case 2:
			l += " " + word(r, 6) + " " + word(r, 6)
		case 3:
			l += "  " + word(r, 200)
		}
		if r.Intn(12) == 0 {
			l = ""
		}
		if r.Intn(9) == 0 {
			// a command line around and beyond the sizes of line buffers (4096) — one command, one event
			n := []int{4000, 4090, 4091, 4092, 4093, 4094, 4095, 4096, 4097, 5000, 9000}[r.Intn(11)]
			l = v + " " + strings.Repeat("p", n-len(v)-1)
		}
		e := eol(r, false)
		us = append(us, unit{bytes: []byte(l + e), expect: []string{"ftp:" + hxs(strings.Trim(l, "\r\n"))}})
	}
	if r.Intn(3) == 0 {
		q := []string{"QUIT", "quit", "Quit bye"}[r.Intn(3)]
		us = append(us, unit{bytes: []byte(q + "\r\n"), expect: []string{"ftp:" + hxs(q)}, closes: true})
		if r.Bool() {
			us = append(us, unit{bytes: []byte("NOOP\r\n")})
		}
	}
	return us
}

func printableLine(r *Rng, max int) string {
	n := r.Intn(max + 1)
	b := make([]byte, n)
	for i := range b {
		b[i] = byte(32 + r.Intn(95))
	}
	return string(b)
}

func genTelnet(r *Rng) []unit {
	var us []unit
	tl := func() (string, string) {
		s := printableLine(r, 30)
		wire := s
		if r.Intn(3) == 0 && len(s) > 0 { // a CR in the middle is ignored
			k := r.Intn(len(s))
			wire = s[:k] + "\r" + s[k:]
		}
		return s, wire + []string{"\r\n", "\n", "\r\r\n"}[r.Intn(3)]
	}
	u, uw := tl()
	p, pw := tl()
	us = append(us, unit{bytes: []byte(uw)}, unit{bytes: []byte(pw), expect: []string{"telnet-auth:" + hxs(u, p)}})
	n := r.Intn(6)
	for i := 0; i < n; i++ {
		c, cw := tl()
		us = append(us, unit{bytes: []byte(cw), expect: []string{"telnet-cmd:" + hxs(c)}})
	}
	return us
}

func genMemcached(r *Rng) []unit {
	var us []unit
	n := r.Range(1, 6)
	for i := 0; i < n; i++ {
		switch r.Intn(5) {
		case 0, 1:
			cmd := []string{"get " + word(r, 10), "stats", "flush_all", "version", "delete " + word(r, 8), "gets a b c", "incr k 1", "verbosity 1", ""}[r.Intn(9)]
			e := eol(r, false)
			us = append(us, unit{bytes: []byte(cmd + e), expect: []string{"mc-cmd:" + hxs(cmd)}})
		default:
			verb := []string{"set", "add", "replace", "append", "prepend", "cas"}[r.Intn(6)]
			key, flags, exp := word(r, 10), fmt.Sprint(r.Intn(100)), fmt.Sprint(r.Intn(1000))
			size := []int{0, 1, 2, 5, 78, 79, 80, 81, 82, 100, 200, r.Intn(3000)}[r.Intn(12)]
			val := r.Bytes(size)
			if r.Intn(3) == 0 { // values that look like protocol text
				val = []byte(strings.Repeat("get x\r\n", size/7+1))[:size]
			}
			cmd := fmt.Sprintf("%s %s %s %s %d", verb, key, flags, exp, size)
			if verb == "cas" {
				cmd += " 77"
			}
			if r.Intn(6) == 0 {
				cmd += " noreply"
			}
			pl := val
			if len(pl) > 80 {
				pl = pl[:80]
			}
			us = append(us, unit{bytes: append(append([]byte(cmd+"\r\n"), val...), '\r', '\n'),
				expect: []string{"mc-cmd:" + hxs(cmd), "mc-store:" + hxs(verb, key, flags, exp, fmt.Sprint(size), string(pl))}})
		}
	}
	return us
}

func respBulk(s string) string { return fmt.Sprintf("$%d\r\n%s\r\n", len(s), s) }

func genRedis(r *Rng) []unit {
	var us []unit
	n := r.Range(1, 6)
	for i := 0; i < n; i++ {
		verb := []string{"PING", "INFO", "SET", "GET", "AUTH", "CONFIG", "FLUSHALL", "eval", "Slaveof", "KEYS", "x"}[r.Intn(11)]
		na := r.Intn(4)
		s := fmt.Sprintf("*%d\r\n", na+1)
		if r.Intn(5) == 0 {
			s += "+" + verb + "\r\n"
		} else {
			s += respBulk(verb)
		}
		for a := 0; a < na; a++ {
			switch r.Intn(4) {
			case 0:
				s += fmt.Sprintf(":%d\r\n", r.Intn(100000))
			case 1:
				s += respBulk(printableLine(r, 40))
			case 2:
				s += respBulk(word(r, 300))
			case 3:
				s += "*2\r\n" + respBulk("a") + ":7\r\n"
			}
		}
		if r.Intn(8) == 0 {
			s = "\r\n" + s // empty lines between commands are ignored
		}
		us = append(us, unit{bytes: []byte(s), expect: []string{"redis:" + hxs(verb)}})
	}
	return us
}

func canonMIME(k string) string {
	b := []byte(strings.ToLower(k))
	up := true
	for i, c := range b {
		if up && c >= 'a' && c <= 'z' {
			b[i] = c - 32
		}
		up = c == '-'
	}
	return string(b)
}

// a simple message: headers "Key: value", an empty line, body lines; returns wire form (DATA, dot-stuffed) and event
func genMail(r *Rng) (hdrs [][2]string, body []string) {
	keys := []string{"Subject", "From", "To", "X-Mailer", "message-id", "DATE", "Received", "x-spam-flag"}
	nh := r.Range(1, 5)
	for i := 0; i < nh; i++ {
		hdrs = append(hdrs, [2]string{keys[r.Intn(len(keys))], strings.TrimSpace(printableLine(r, 40))})
	}
	nb := r.Intn(6)
	for i := 0; i < nb; i++ {
		l := printableLine(r, 60)
		switch r.Intn(6) {
		case 0:
			l = "." + l
		case 1:
			l = ".."
		case 2:
			l = ""
		}
		body = append(body, l)
	}
	return
}

func mailEventCanon(hdrs [][2]string, body string) string {
	m := map[string][]string{}
	for _, h := range hdrs {
		k := canonMIME(h[0])
		m[k] = append(m[k], h[1])
	}
	var hs []string
	for k, v := range m {
		hs = append(hs, k+"="+strings.Join(v, ","))
	}
	sort.Strings(hs)
	return "smtp-email:" + hxs(append([]string{body}, hs...)...)
}

func genSMTP(r *Rng) []unit {
	var us []unit
	ln := func(s string) unit {
		return unit{bytes: []byte(s + eol(r, false)), expect: []string{"smtp-line:" + hxs(s)}}
	}
	us = append(us, ln([]string{"EHLO client.example", "HELO x", "ehlo [10.0.0.1]"}[r.Intn(3)]))
	nm := r.Range(1, 3)
	for m := 0; m < nm; m++ {
		if r.Intn(4) == 0 {
			us = append(us, ln([]string{"NOOP", "RSET", "HELP", "VRFY root", ""}[r.Intn(5)]))
		}
		us = append(us, ln("MAIL FROM:<"+word(r, 8)+"@example.org>"))
		for k := r.Range(1, 3); k > 0; k-- {
			us = append(us, ln("RCPT TO:<"+word(r, 8)+"@example.net>"))
		}
		hdrs, body := genMail(r)
		if r.Intn(3) != 0 {
			// DATA: CRLF line ends (as SMTP requires; net/textproto's dot-reader does not recognise the terminating
			// "." after an empty line that ends in a bare LF), dot-stuffed
			var w strings.Builder
			var bodyText strings.Builder
			e := "\r\n"
			for _, h := range hdrs {
				w.WriteString(h[0] + ": " + h[1] + e)
			}
			w.WriteString(e)
			for _, l := range body {
				if strings.HasPrefix(l, ".") {
					w.WriteString(".")
				}
				w.WriteString(l + e)
				bodyText.WriteString(l + "\n")
			}
			w.WriteString("." + e)
			u := ln("DATA")
			u.bytes = append(u.bytes, []byte(w.String())...)
			u.expect = append(u.expect, mailEventCanon(hdrs, bodyText.String()))
			us = append(us, u)
		} else {
			// BDAT: the message text verbatim, in 1..3 chunks
			var w strings.Builder
			for _, h := range hdrs {
				w.WriteString(h[0] + ": " + h[1] + "\r\n")
			}
			w.WriteString("\r\n")
			var bodyText strings.Builder
			for _, l := range body {
				bodyText.WriteString(l + "\r\n")
			}
			text := w.String() + bodyText.String()
			nc := r.Range(1, 3)
			pos := 0
			for c := 0; c < nc; c++ {
				end := len(text)
				if c < nc-1 {
					end = pos + r.Intn(len(text)-pos+1)
				}
				chunk := text[pos:end]
				pos = end
				cmd := fmt.Sprintf("BDAT %d", len(chunk))
				if c == nc-1 {
					cmd += " LAST"
				}
				u := unit{bytes: []byte(cmd + "\r\n" + chunk), expect: []string{"smtp-line:" + hxs(cmd)}}
				if c == nc-1 {
					u.expect = append(u.expect, mailEventCanon(hdrs, bodyText.String()))
				}
				us = append(us, u)
			}
		}
	}
	if r.Bool() {
		q := ln("QUIT")
		q.closes = true
		us = append(us, q)
		if r.Bool() {
			us = append(us, unit{bytes: []byte("NOOP\r\n")})
		}
	}
	return us
}

// genHTTPChunked: every request with a body is chunked (sizes in lower or upper case hex, some with extensions)
func genHTTPChunked(r *Rng) []unit { return genHTTPx(r, true) }

func genHTTP(r *Rng) []unit { return genHTTPx(r, false) }

func genHTTPx(r *Rng, forceChunked bool) []unit {
	var us []unit
	n := r.Range(1, 4)
	for i := 0; i < n; i++ {
		method := []string{"GET", "POST", "PUT", "HEAD", "DELETE", "OPTIONS", "PATCH"}[r.Intn(7)]
		if forceChunked && i == 0 {
			method = "POST"
		}
		target := "/" + word(r, 12)
		if r.Intn(3) == 0 {
			target += "?q=" + word(r, 8) + "&x=1"
		}
		proto := []string{"HTTP/1.1", "HTTP/1.1", "HTTP/1.0"}[r.Intn(3)]
		if forceChunked {
			proto = "HTTP/1.1"
		}
		host := word(r, 10) + ".example"
		hdr := map[string][]string{}
		var lines []string
		lines = append(lines, "Host: "+host)
		nh := r.Intn(7)
		names := []string{"User-Agent", "accept", "X-Forwarded-For", "Cookie", "Authorization", "x-custom", "Accept-Encoding", "REFERER"}
		for k := 0; k < nh; k++ {
			nm := names[r.Intn(len(names))]
			v := strings.TrimSpace(strings.ReplaceAll(printableLine(r, 30), ":", ";"))
			if nm == "Cookie" {
				v = word(r, 5) + "=" + word(r, 6)
			}
			lines = append(lines, nm+": "+v)
			hdr[strings.ToLower(nm)] = append(hdr[strings.ToLower(nm)], v)
		}
		var body []byte
		wire := ""
		if method == "POST" || method == "PUT" || method == "PATCH" {
			body = r.Bytes([]int{0, 1, 10, 500, 1023, 1024, 1025, 3000}[r.Intn(8)])
			if (forceChunked || r.Intn(4) == 0) && proto == "HTTP/1.1" {
				// chunked (HTTP/1.1 only: a 1.0 request cannot be chunked)
				lines = append(lines, []string{"Transfer-Encoding: chunked", "transfer-encoding: Chunked"}[r.Intn(2)])
				pos := 0
				for pos < len(body) {
					k := r.Range(1, len(body)-pos)
					if r.Intn(3) == 0 && k > 20 {
						k = r.Range(1, 20)
					}
					size := fmt.Sprintf("%x", k)
					if r.Bool() {
						size = strings.ToUpper(size)
					}
					if r.Intn(5) == 0 {
						size += ";ext=" + word(r, 4)
					}
					wire += size + "\r\n" + string(body[pos:pos+k]) + "\r\n"
					pos += k
				}
				wire += "0\r\n\r\n"
			} else {
				lines = append(lines, fmt.Sprintf("Content-Length: %d", len(body)))
				hdr["content-length"] = []string{fmt.Sprint(len(body))}
				wire = string(body)
			}
		}
		pl := body
		if len(pl) > 1024 {
			pl = pl[:1024]
		}
		var hs []string
		for k, v := range hdr {
			hs = append(hs, k+"="+strings.Join(v, "\x00"))
		}
		sort.Strings(hs)
		req := method + " " + target + " " + proto + "\r\n" + strings.Join(lines, "\r\n") + "\r\n\r\n" + wire
		us = append(us, unit{bytes: []byte(req), expect: []string{"http:" + hxs(append([]string{method, target, proto, host, string(pl)}, hs...)...)}})
	}
	return us
}

// ---- datagrams ----

// runDgram: one datagram to a UDP service through the real handle(); expect = the events it must produce
func runDgram(svc string, payload []byte, expect []string, haveExpect bool) {
	lab := c04Lab()
	line := "@dgram " + svc + " " + hx(payload)
	if svc == "echou" || svc == "tftp" || svc == "counterstrike" || svc == "memcachedu" {
		line = line[1:] // these decoders have a Lean model
	}
	verdict := "ok"
	viol := func(sig, d string) {
		if verdict == "ok" {
			verdict = "viol:" + sig + ":" + d
		}
	}
	res := lab.datagram(svc, payload, nil)
	got := joinEv(canonEvents(svc, res.events))
	if !res.returned {
		got = "hang"
		viol("handler-does-not-return", svc+": handle() still running 5 s after a single datagram")
	}
	if haveExpect {
		if want := joinEv(expect); got != want {
			viol("datagram-not-reported", fmt.Sprintf("%s: captured %s, the datagram means %s", svc, clip(got, 300), clip(want, 300)))
		}
	}
	emit(line, got, verdict, got != "-")
}

func dnsQuery(r *Rng) ([]byte, []string) {
	id := r.Intn(65536)
	b := []byte{byte(id >> 8), byte(id), 0x01, 0x00, 0, 1, 0, 0, 0, 0, 0, 0}
	for k := r.Range(1, 3); k > 0; k-- {
		l := word(r, 10)
		l = strings.Map(func(c rune) rune {
			if c == '.' || c == '/' || c == '_' {
				return 'a'
			}
			return c
		}, l)
		b = append(b, byte(len(l)))
		b = append(b, l...)
	}
	b = append(b, 0, 0, byte([]int{1, 28, 15, 16, 255}[r.Intn(5)]), 0, 1)
	return b, []string{"dns:" + hxs(fmt.Sprint(id), "0")}
}

func tftpReq(r *Rng) ([]byte, []string) {
	op := byte(r.Range(1, 2))
	name, mode := word(r, 20), []string{"octet", "netascii", "OCTET"}[r.Intn(3)]
	b := append([]byte{0, op}, name...)
	b = append(b, 0)
	b = append(b, mode...)
	b = append(b, 0)
	typ := "tftp-read"
	if op == 2 {
		typ = "tftp-write"
	}
	return b, []string{"tftp:" + hxs(typ, name, mode)}
}

func snmpGet(r *Rng) ([]byte, []string) {
	community := word(r, 10)
	oid := []byte{0x2b, 6, 1, 2, 1, 1, byte(r.Range(1, 7)), 0}
	vb := append([]byte{0x06, byte(len(oid))}, oid...)
	vb = append(vb, 0x05, 0x00)
	vbl := append([]byte{0x30, byte(len(vb))}, vb...)
	vbs := append([]byte{0x30, byte(len(vbl))}, vbl...)
	pdu := []byte{0x02, 0x04, byte(r.Next()) & 0x7f, byte(r.Next()), byte(r.Next()), byte(r.Next()), 0x02, 0x01, 0x00, 0x02, 0x01, 0x00}
	pdu = append(pdu, vbs...)
	tag := []byte{0xa0, 0xa1}[r.Intn(2)]
	typ := map[byte]string{0xa0: "get-request", 0xa1: "get-next-request"}[tag]
	body := []byte{0x02, 0x01, 0x00, 0x04, byte(len(community))}
	body = append(body, community...)
	body = append(body, tag, byte(len(pdu)))
	body = append(body, pdu...)
	return append([]byte{0x30, byte(len(body))}, body...), []string{"snmp:" + hxs(typ, community)}
}

// berLenAny: definite BER length, short or long form
func berLenAny(n int) []byte {
	switch {
	case n < 128:
		return []byte{byte(n)}
	case n < 256:
		return []byte{0x81, byte(n)}
	default:
		return []byte{0x82, byte(n >> 8), byte(n)}
	}
}

func tlvAny(tag byte, v []byte) []byte { return append(append([]byte{tag}, berLenAny(len(v))...), v...) }

// snmpMsg: an SNMP message of the given version with a PDU of the given tag, community and number of variable bindings
func snmpMsg(r *Rng, version byte, tag byte, community string, nvb int) []byte {
	var vbl []byte
	for i := 0; i < nvb; i++ {
		oid := []byte{0x2b, 6, 1, 2, 1, byte(1 + i%10), byte(r.Range(1, 7)), 0}
		vbl = append(vbl, tlvAny(0x30, append(tlvAny(0x06, oid), 0x05, 0x00))...)
	}
	pdu := []byte{0x02, 0x04, byte(r.Next()) & 0x7f, byte(r.Next()), byte(r.Next()), byte(r.Next()), 0x02, 0x01, 0x00, 0x02, 0x01, 0x00}
	pdu = append(pdu, tlvAny(0x30, vbl)...)
	body := append([]byte{0x02, 0x01, version}, tlvAny(0x04, []byte(community))...)
	body = append(body, tlvAny(tag, pdu)...)
	return tlvAny(0x30, body)
}

// snmpAll: versions, PDU kinds, community lengths and binding counts on both sides of the 128-byte message size
// (where the BER length of the message changes form)
func snmpAll(r *Rng) [][2]interface{} {
	types := map[byte]string{0xa0: "get-request", 0xa1: "get-next-request", 0xa3: "set-request"}
	var out [][2]interface{}
	add := func(version, tag byte, community string, nvb int) {
		b := snmpMsg(r, version, tag, community, nvb)
		var ex []string
		if version != 0 {
			ex = []string{"snmp:" + hxs("unknown-packet", community)}
		} else if t, ok := types[tag]; ok {
			ex = []string{"snmp:" + hxs(t, community)}
		}
		out = append(out, [2]interface{}{b, ex})
	}
	for _, tag := range []byte{0xa0, 0xa1, 0xa3, 0xa5} {
		for _, nvb := range []int{0, 1, 2, 5, 6, 7, 12, 30} {
			add(0, tag, "public", nvb)
		}
	}
	for _, cl := range []int{0, 1, 60, 80, 90, 100, 120, 127, 128, 200} {
		add(0, 0xa0, strings.Repeat("c", cl), 1)
	}
	add(1, 0xa0, "public", 1)
	add(1, 0xa5, "private", 3)
	add(3, 0xa0, "x", 1)
	return out
}

// tftpAll: requests with empty or long names and modes, options after the mode, other opcodes, truncated forms (the Lean
// decoder decides what they mean)
func tftpAll(r *Rng) [][]byte {
	var out [][]byte
	mk := func(op byte, parts ...string) []byte {
		b := []byte{0, op}
		for _, p := range parts {
			b = append(append(b, p...), 0)
		}
		return b
	}
	for _, op := range []byte{1, 2} {
		out = append(out, mk(op, "a", "octet"), mk(op, "", "octet"), mk(op, "a", ""), mk(op, "", ""), mk(op, strings.Repeat("n", 500), "netascii"),
			mk(op, "file", "octet", "blksize", "1428"), mk(op, "file", "octet", "tsize", "0", "timeout", "5"),
			[]byte{0, op}, append([]byte{0, op}, "noterminator"...), append(mk(op, "name"), "octet"...), []byte{1, op, 'a', 0, 'o', 0})
	}
	out = append(out, []byte{0, 3, 0, 1, 'd'}, []byte{0, 4, 0, 1}, []byte{0, 5, 0, 1, 'e', 0}, []byte{0, 6, 'x', 0, '1', 0}, []byte{0, 0}, []byte{0}, []byte{0, 9, 'a', 0, 'b', 0})
	return out
}

// dnsAll: well-formed queries of several shapes (expected: one event with the id and opcode) and odd ones (no expectation)
func dnsAll(r *Rng) [][2]interface{} {
	var out [][2]interface{}
	name := func(labels ...string) []byte {
		var b []byte
		for _, l := range labels {
			b = append(append(b, byte(len(l))), l...)
		}
		return append(b, 0)
	}
	q := func(id int, flags uint16, qd int, body []byte) []byte {
		return append([]byte{byte(id >> 8), byte(id), byte(flags >> 8), byte(flags), byte(qd >> 8), byte(qd), 0, 0, 0, 0, 0, 0}, body...)
	}
	quest := func(n []byte, t byte) []byte { return append(append([]byte(nil), n...), 0, t, 0, 1) }
	ex := func(id, op int) []string { return []string{"dns:" + hxs(fmt.Sprint(id), fmt.Sprint(op))} }
	out = append(out,
		[2]interface{}{q(1, 0x0100, 1, quest(name("example", "com"), 1)), ex(1, 0)},
		[2]interface{}{q(0, 0x0100, 1, quest(name(), 2)), ex(0, 0)},                    // the root
		[2]interface{}{q(65535, 0x0000, 1, quest(name("a"), 255)), ex(65535, 0)},       // no recursion, ANY
		[2]interface{}{q(7, 0x0100, 2, append(quest(name("a", "b"), 1), quest(name("c"), 28)...)), ex(7, 0)},
		[2]interface{}{q(8, 0x0100, 1, quest(name(strings.Repeat("l", 63), strings.Repeat("m", 63), strings.Repeat("n", 63), strings.Repeat("o", 59)), 16)), ex(8, 0)},
		[2]interface{}{q(9, 0x0120, 1, quest(name("ad", "bit"), 1)), ex(9, 0)},
	)
	for _, b := range [][]byte{q(10, 0x0100, 0, nil), q(11, 0x1000, 1, quest(name("status"), 1)), q(12, 0x8180, 1, quest(name("resp"), 1)), q(13, 0x0100, 1, []byte{0xc0, 0x0c, 0, 1, 0, 1}),
		q(14, 0x0100, 1, []byte{5, 'a', 'b'}), q(15, 0x0100, 3, quest(name("x"), 1)), {0, 1, 2}, q(16, 0x2800, 1, quest(name("upd"), 6))} {
		out = append(out, [2]interface{}{b, []string(nil)})
	}
	return out
}

// csAll: every query type, bare (the 5-byte form: header and type only) and with argument bytes, under both headers;
// an unknown type and datagrams shorter than the header
func csAll(r *Rng) [][2]interface{} {
	names := map[byte]string{0x54: "a2s_info", 0x55: "a2s_player", 0x56: "a2s_rules", 0x57: "a2s_serverquery_challenge", 0x69: "a2s_ping"}
	var out [][2]interface{}
	for _, hdr := range [][]byte{{0xff, 0xff, 0xff, 0xff}, {0xff, 0xff, 0xff, 0xfe}} {
		for _, q := range []byte{0x54, 0x55, 0x56, 0x57, 0x69, 0x41} {
			for _, args := range [][]byte{nil, {0}, r.Bytes(1 + r.Intn(30))} {
				b := append(append(append([]byte(nil), hdr...), q), args...)
				var ex []string
				if n, ok := names[q]; ok {
					ex = []string{"cs:" + hxs(n, string(b))}
				}
				out = append(out, [2]interface{}{b, ex})
			}
		}
	}
	for _, b := range [][]byte{{0xff}, {0xff, 0xff, 0xff, 0xff}, {0xff, 0xff, 0xff, 0xfd, 0x54}, {0, 0, 0, 0, 0x54, 1}} {
		out = append(out, [2]interface{}{b, []string(nil)})
	}
	return out
}

func csQuery(r *Rng) ([]byte, []string) {
	switch r.Intn(3) {
	case 0:
		b := append([]byte{0xff, 0xff, 0xff, 0xff, 0x54}, "Source Engine Query\x00"...)
		return b, []string{"cs:" + hxs("a2s_info", string(b))}
	case 1:
		b := []byte{0xff, 0xff, 0xff, 0xff, 0x55, 0xff, 0xff, 0xff, 0xff}
		return b, []string{"cs:" + hxs("a2s_player", string(b))}
	default:
		b := []byte{0xff, 0xff, 0xff, 0xff, 0x56, 1, 2, 3, 4}
		return b, []string{"cs:" + hxs("a2s_rules", string(b))}
	}
}

// ---- segmentations ----

func cutAt(b []byte, cuts []int) [][]byte {
	sort.Ints(cuts)
	var segs [][]byte
	prev := 0
	for _, c := range cuts {
		if c > prev && c < len(b) {
			segs = append(segs, b[prev:c])
			prev = c
		}
	}
	return append(segs, b[prev:])
}

func init() {
	register(&Stream{Name: "c04seg", Gen: genC04, Replay: func(l string) {
		f := strings.Fields(l)
		if len(f) >= 3 && f[0] == "seg" && f[1] == "ldap" {
			var segs [][]byte
			for _, h := range f[2:] {
				segs = append(segs, unhx(h))
			}
			runReqX("ldap", segs, nil, false)
		} else if len(f) >= 3 && (f[0] == "seg" || f[0] == "segc" || f[0] == "@seg" || f[0] == "@lock") {
			var segs [][]byte
			for _, h := range f[2:] {
				segs = append(segs, unhx(h))
			}
			runSeg(f[0], f[1], segs, nil, false)
		}
		if len(f) >= 3 && (f[0] == "@req" || f[0] == "seg1") {
			var segs [][]byte
			for _, h := range f[2:] {
				segs = append(segs, unhx(h))
			}
			runReqX(f[1], segs, nil, false)
		}
	}})
}

func genC04(tier string, seed uint64) {
	r := NewRng(seed ^ 0xc04)
	genC04Req(tier, NewRng(seed^0xc04e))
	gens := []struct {
		svc string
		gen func(*Rng) []unit
	}{{"ftp", genFTP}, {"telnet", genTelnet}, {"memcached", genMemcached}, {"redis", genRedis}, {"smtp", genSMTP}, {"http", genHTTP}, {"http", genHTTPChunked}}
	nDial, maxSingle, nMulti := 6, 160, 12
	if tier == "thorough" {
		nDial, maxSingle, nMulti = 40, 600, 60
	}
	cuts := map[string]int{}
	for _, g := range gens {
		for d := 0; d < nDial; d++ {
			us := g.gen(r)
			b, ex := dialogue(us)
			seg := "seg"
			if g.svc == "http" && bytes.Contains(bytes.ToLower(b), []byte("transfer-encoding")) {
				seg = "segc" // chunked bodies: the machine of HT.Relay.httpSvcC
			}
			// in one piece; at every unit boundary (one write per command, pipelined and lock-step)
			runSeg(seg, g.svc, [][]byte{b}, ex, true)
			var per [][]byte
			for _, u := range us {
				per = append(per, u.bytes)
			}
			runSeg(seg, g.svc, per, ex, true)
			runSeg("@lock", g.svc, per, ex, true)
			// every single cut point (all of them for short streams, a stride for long ones)
			stride := 1
			if len(b) > maxSingle {
				stride = len(b)/maxSingle + 1
			}
			for c := 1; c < len(b); c += stride {
				runSeg(seg, g.svc, cutAt(b, []int{c}), ex, true)
				cuts["single"]++
			}
			// multi-cut and dribble
			for k := 0; k < nMulti; k++ {
				nc := r.Range(2, 6)
				var cs []int
				for i := 0; i < nc; i++ {
					cs = append(cs, r.Intn(len(b)+1))
				}
				runSeg(seg, g.svc, cutAt(b, cs), ex, true)
				cuts["multi"]++
			}
			if len(b) <= 400 {
				var cs []int
				for i := 1; i < len(b); i++ {
					cs = append(cs, i)
				}
				runSeg(seg, g.svc, cutAt(b, cs), ex, true)
				cuts["dribble"]++
			}
			// the stream cut short (client goes away mid-command): events of the complete commands only
			if len(b) > 2 {
				k := r.Intn(len(b))
				short := seg
				if seg == "segc" {
					short = "@seg" // a stream that ends inside a chunked body: oracle only
				}
				runSeg(short, g.svc, cutAt(b[:k], []int{r.Intn(k + 1)}), nil, false)
			}
		}
	}
	// telnet: option negotiation inside the stream (IAC WILL/DO/SB ... SE, escaped IAC): whatever the service makes of
	// the bytes, it must make the same of them in every segmentation (outside the model's alphabet: oracle only)
	{
		b := []byte("root\r\n\xff\xfb\x18\xff\xfa\x18\x00xterm\xff\xf0toor\r\n\xff\xfd\x01uname -a\r\ncat /proc\xff\xfa\x1f\x00P\x00\x18\xff\xf0/cpuinfo\r\nls \xff\xff x\r\n")
		runSeg("@seg", "telnet", [][]byte{b}, nil, false)
		for c := 1; c < len(b); c++ {
			runSeg("@seg", "telnet", cutAt(b, []int{c}), nil, false)
		}
		var cs []int
		for i := 1; i < len(b); i++ {
			cs = append(cs, i)
		}
		runSeg("@seg", "telnet", cutAt(b, cs), nil, false)
	}
	// ftp: command lines around and beyond the size of a line buffer (one command, one event, whatever its length)
	for _, n := range []int{4093, 4094, 4095, 4096, 4097, 9000} {
		long := "CWD " + strings.Repeat("p", n-4)
		us := []unit{
			{bytes: []byte("USER anonymous\r\n"), expect: []string{"ftp:" + hxs("USER anonymous")}},
			{bytes: []byte(long + "\r\n"), expect: []string{"ftp:" + hxs(long)}},
			{bytes: []byte("NOOP\r\n"), expect: []string{"ftp:" + hxs("NOOP")}},
		}
		b, ex := dialogue(us)
		runSeg("seg", "ftp", [][]byte{b}, ex, true)
		runSeg("seg", "ftp", cutAt(b, []int{20, 4096 + 16}), ex, true)
		runSeg("seg", "ftp", cutAt(b, []int{len(b) / 2}), ex, true)
	}
	// redis: arrays nested around the depth limit (the request is rejected beyond it, reported below it)
	for _, k := range []int{1, 5, 30, 31, 32, 33, 34, 40} {
		b := []byte("*2\r\n$3\r\nGET\r\n" + strings.Repeat("*1\r\n", k) + "$1\r\nx\r\n" + "*1\r\n$4\r\nPING\r\n")
		runSeg("seg", "redis", [][]byte{b}, nil, false)
		runSeg("seg", "redis", cutAt(b, []int{len(b) / 2, len(b) - 3}), nil, false)
	}
	// raw and mutated streams: segmentation independence on anything (ftp, memcached, redis through the model too)
	for i := 0; i < nDial*4; i++ {
		g := gens[i%len(gens)]
		b, _ := dialogue(g.gen(r))
		for k := r.Range(1, 4); k > 0 && len(b) > 0; k-- {
			b[r.Intn(len(b))] = []byte{'\n', '\r', ' ', 0, '*', '$', ':', '.', 0xff, byte(r.Next())}[r.Intn(10)]
		}
		prefix := "seg"
		if g.svc == "smtp" || g.svc == "telnet" || g.svc == "http" {
			prefix = "@seg"
		}
		runSeg(prefix, g.svc, [][]byte{b}, nil, false)
		for k := 0; k < 4; k++ {
			runSeg(prefix, g.svc, cutAt(b, []int{r.Intn(len(b) + 1), r.Intn(len(b) + 1)}), nil, false)
		}
	}
	for _, c := range csAll(r) {
		ex, _ := c[1].([]string)
		runDgram("counterstrike", c[0].([]byte), ex, true)
	}
	for _, c := range snmpAll(r) {
		ex, _ := c[1].([]string)
		runDgram("snmp", c[0].([]byte), ex, true)
	}
	for _, b := range tftpAll(r) {
		runDgram("tftp", b, nil, false)
	}
	for _, c := range dnsAll(r) {
		ex, have := c[1].([]string)
		runDgram("dns", c[0].([]byte), ex, have && ex != nil)
	}
	// datagrams: each decoded and reported on its own, through the dispatcher
	for i := 0; i < nDial*6; i++ {
		var b []byte
		var ex []string
		switch i % 6 {
		case 0:
			b, ex = dnsQuery(r)
			runDgram("dns", b, ex, true)
		case 1:
			b, ex = tftpReq(r)
			runDgram("tftp", b, ex, true)
		case 2:
			b, ex = snmpGet(r)
			runDgram("snmp", b, ex, true)
		case 3:
			b, ex = csQuery(r)
			runDgram("counterstrike", b, ex, true)
		case 4:
			b = r.Bytes(r.Range(1, 1400))
			runDgram("echou", b, []string{"echo:" + hxs(string(b))}, true)
		case 5:
			// memcached over UDP: 8-byte frame header, then the same text protocol
			us := genMemcached(r)
			mb, mex := dialogue(us[:1])
			runDgram("memcachedu", append([]byte{0, 1, 0, 0, 0, 1, 0, 0}, mb...), mex, true)
			// several commands in one datagram; the frame header alone; less than a header
			// (at most three: the service answers each command and stops at the first answer its rate limiter refuses —
			// the fifth from one source — which is C10's subject)
			if len(us) > 3 {
				us = us[:3]
			}
			mb, mex = dialogue(us)
			runDgram("memcachedu", append([]byte{byte(i), 2, 0, 0, 0, 1, 0, 0}, mb...), mex, true)
			if i < 12 {
				runDgram("memcachedu", []byte{0, 1, 0, 0, 0, 1, 0, 0}, nil, false)
				runDgram("memcachedu", []byte{0, 1, 0, 0, 0, 1, 0, 0}[:i%8], nil, false)
			}
		}
		cuts["datagram"]++
	}
	for k, v := range cuts {
		fmt.Fprintf(out, "#stat c04_cuts_%s %d\n", k, v)
	}
}
