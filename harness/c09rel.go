package main

import (
	"syscall"
	"bufio"
	"crypto/tls"
	"fmt"
	"io/ioutil"
	"net"
	"os"
	"regexp"
	"runtime"
	"sort"
	"strings"
	"sync"
	"time"

	"github.com/honeytrap/honeytrap/listener"
	"golang.org/x/crypto/ssh"
)

// C09: handlers finish and release everything once the peer is gone.
//
// @rel <service> <mode> <n> <input hex>   : n sequential connections to the service through the real handle() over
//                                          loopback TCP sockets (datagram connections for UDP services), each sending
//                                          the input and then, by mode: close (client closes), half (client half-
//                                          closes, keeps reading), -> "ret=<max ms until handle() returned> g=<delta of
//                                          honeytrap goroutines> fd=<delta of descriptors>"
// @silent <service> <stage hex>         : the client sends the stage bytes and stays silent: handle() must return after
//                                          the 30 s idle timeout (all services are run at once)
// rel <kind> <datagram length> <buf>     : the read loop of a handler over a datagram connection (model-compared)

var htFrame = regexp.MustCompile(`github\.com/honeytrap/honeytrap/(services|server|listener|pushers|director)`)

// htGoroutines returns the honeytrap goroutines as "top honeytrap frame" -> count
func htGoroutines() map[string]int {
	buf := make([]byte, 8<<20)
	n := runtime.Stack(buf, true)
	res := map[string]int{}
	for _, g := range strings.Split(string(buf[:n]), "\n\n") {
		if !htFrame.MatchString(g) {
			continue
		}
		if strings.Contains(g, "htverif/harness") && !strings.Contains(g, "VerifHandle") {
			continue // the harness's own goroutines
		}
		top := ""
		for _, l := range strings.Split(g, "\n") {
			if htFrame.MatchString(l) && !strings.HasPrefix(l, "\t") {
				top = strings.TrimSpace(l)
				if i := strings.LastIndex(top, "("); i > 0 {
					top = top[:i]
				}
				break
			}
		}
		res[top]++
	}
	return res
}

func fdCount() int {
	fs, _ := ioutil.ReadDir("/proc/self/fd")
	return len(fs)
}

func diffG(before, after map[string]int) (int, string) {
	total := 0
	var parts []string
	for k, v := range after {
		if d := v - before[k]; d > 0 {
			total += d
			parts = append(parts, fmt.Sprintf("%s x%d", k, d))
		}
	}
	sort.Strings(parts)
	return total, strings.Join(parts, ", ")
}

// settleRes waits (up to max) until goroutine and descriptor counts are back at the baseline
func settleRes(g0 map[string]int, fd0 int, max time.Duration) (int, string, int) {
	deadline := time.Now().Add(max)
	for {
		runtime.GC()
		dg, what := diffG(g0, htGoroutines())
		dfd := fdCount() - fd0
		if (dg == 0 && dfd <= 0) || time.Now().After(deadline) {
			return dg, what, dfd
		}
		time.Sleep(20 * time.Millisecond)
	}
}

var c09lab *svcLab

func c09Lab() *svcLab {
	if c09lab == nil {
		os.Stdout = devNull
		l, err := newSvcLab()
		if err != nil {
			panic(err)
		}
		c09lab = l
	}
	return c09lab
}

// tcpServed opens a loopback TCP connection whose server side is handed to the real handle() as if it had been
// accepted on the service's port.
type portConn struct {
	net.Conn
	laddr net.Addr
}

func (p *portConn) LocalAddr() net.Addr { return p.laddr }

func serveTCP(lab *svcLab, svc string) (cli net.Conn, done chan struct{}) {
	s := lab.byNm[svc]
	srv, cli := tcpPair()
	done = make(chan struct{})
	pc := &portConn{Conn: srv, laddr: &net.TCPAddr{IP: net.IPv4(127, 0, 0, 1), Port: s.port}}
	go func() { defer close(done); lab.hc.VerifHandle(pc) }()
	return cli, done
}

func runRel(svc, mode string, n int, input []byte, bound time.Duration) {
	lab := c09Lab()
	s := lab.byNm[svc]
	if svc == "https" {
		// the service generates a 4096-bit RSA key for every server name it has not seen (seconds of CPU, one at a time):
		// bounded, but not by the bound of the other services
		bound = 40 * time.Second
	}
	line := fmt.Sprintf("@rel %s %s %d %s", svc, mode, n, hx(input))
	verdict := "ok"
	viol := func(sig, d string) {
		if verdict == "ok" {
			verdict = "viol:" + sig + ":" + d
		}
	}
	// warm-up: lazily created goroutines (loggers, key generation) are not per-connection resources
	g0 := htGoroutines()
	fd0 := fdCount()
	maxRet := time.Duration(0)
	for i := 0; i < n; i++ {
		if s.proto == "udp" {
			c := &listener.DummyUDPConn{Buffer: append([]byte(nil), input...), Laddr: &net.UDPAddr{IP: net.IPv4(10, 0, 0, 1), Port: s.port},
				Raddr: lab.clientAddr(true).(*net.UDPAddr), Fn: func(b []byte, a *net.UDPAddr) (int, error) { return len(b), nil }}
			done := make(chan struct{})
			t0 := time.Now()
			go func() { defer close(done); lab.hc.VerifHandle(c) }()
			select {
			case <-done:
				if d := time.Since(t0); d > maxRet {
					maxRet = d
				}
			case <-time.After(bound):
				viol("handler-does-not-return", fmt.Sprintf("%s: handle() still running %v after a %d-byte datagram", svc, bound, len(input)))
				maxRet = bound
			}
			if verdict != "ok" {
				break
			}
			continue
		}
		cli, done := serveTCP(lab, svc)
		cli.SetDeadline(time.Now().Add(bound + 5*time.Second))
		var wg sync.WaitGroup
		wg.Add(1)
		drained := make(chan struct{})
		go func() { defer wg.Done(); defer close(drained); ioutil.ReadAll(cli) }() // drain replies so that the server never blocks writing
		if len(input) > 0 {
			cli.Write(input)
		}
		time.Sleep(2 * time.Millisecond)
		t0 := time.Now()
		if mode == "half" {
			cli.(*net.TCPConn).CloseWrite()
		} else {
			cli.Close()
		}
		select {
		case <-done:
			if d := time.Since(t0); d > maxRet {
				maxRet = d
			}
		case <-time.After(bound):
			viol("handler-does-not-return", fmt.Sprintf("%s: handle() still running %v after the client closed (%s, %d input bytes)", svc, bound, mode, len(input)))
			maxRet = bound
		}
		if mode == "half" && verdict == "ok" {
			// the client still reads: once handle() has returned it must see the server's end of the connection
			select {
			case <-drained:
			case <-time.After(time.Second):
				viol("connection-not-closed", fmt.Sprintf("%s: handle() returned but the connection was not closed (the client, still reading, sees no end of stream; %d input bytes)", svc, len(input)))
			}
		}
		cli.Close()
		wg.Wait()
		if verdict != "ok" {
			break
		}
	}
	dg, what, dfd := settleRes(g0, fd0, 1500*time.Millisecond)
	if dg > 0 {
		viol("goroutines-left-behind", fmt.Sprintf("%s: after %d connections (%s) %d honeytrap goroutines more than before: %s", svc, n, mode, dg, what))
	}
	if dfd > 0 {
		viol("descriptors-left-behind", fmt.Sprintf("%s: after %d connections (%s) %d descriptors more than before", svc, n, mode, dfd))
	}
	emit(line, fmt.Sprintf("ret<%s g=%d fd=%d", bucketMs(maxRet), dg, maxInt(dfd, 0)), verdict, n > 0)
	if strings.HasPrefix(verdict, "viol:handler-does-not-return") && cpuBusy() {
		// a handler that neither returns nor sleeps (it spins, and may report events at full speed) would starve and bloat
		// the rest of the stream: the record above is the finding, the stream ends here
		fmt.Fprintln(out, "#stat c09_stream_cut_short_after_spinning_handler 1")
		out.Flush()
		os.Exit(0)
	}
}

func bucketMs(d time.Duration) string {
	switch {
	case d < 100*time.Millisecond:
		return "100ms"
	case d < time.Second:
		return "1s"
	}
	return "bound"
}

// cpuBusy: the process used more than 80 % of one CPU over the last 300 ms although the client has gone
func cpuBusy() bool {
	cpu := func() time.Duration {
		var ru syscall.Rusage
		syscall.Getrusage(syscall.RUSAGE_SELF, &ru)
		return time.Duration(ru.Utime.Nano() + ru.Stime.Nano())
	}
	c0 := cpu()
	time.Sleep(300 * time.Millisecond)
	return cpu()-c0 > 240*time.Millisecond
}

func maxInt(a, b int) int {
	if a > b {
		return a
	}
	return b
}

// runSilent: every TCP service at once: send the stage bytes, then say nothing; each handle() must return once the
// 30 s idle timeout has passed (bound: 30 s + margin), and nothing may be left behind afterwards.
func silentBound(idle, margin time.Duration) time.Duration {
	if os.Getenv("HT_C09_LONG") != "" {
		return 6*idle + margin
	}
	return 2*idle + margin
}

// on a port shared by several services the connection carries two timeout wrappers (the one of the peek and the one of
// handle()); measured: a partial header line then costs three idle periods instead of two — bounded all the same
func sharedExtra(svc string, idle time.Duration) time.Duration {
	if svc == "shared" {
		return idle
	}
	return 0
}

func runSilent(stages map[string][][]byte, idle, margin time.Duration) {
	lab := c09Lab()
	type run struct {
		svc   string
		stage []byte
		cli   net.Conn
		done  chan struct{}
		ret   time.Duration
		ok    bool
	}
	g0 := htGoroutines()
	fd0 := fdCount()
	var runs []*run
	t0 := time.Now()
	for svc, sts := range stages {
		for _, st := range sts {
			cli, done := serveTCP(lab, svc)
			go ioutil.ReadAll(cli)
			if len(st) > 0 {
				cli.Write(st)
			}
			runs = append(runs, &run{svc: svc, stage: st, cli: cli, done: done})
		}
	}
	var wg sync.WaitGroup
	for _, r := range runs {
		wg.Add(1)
		go func(r *run) {
			defer wg.Done()
			// a timeout that strikes while a partial line is buffered is swallowed once by bufio's ReadLine, and a
			// transfer command first waits for its own accept timeout: the bound is two idle periods
			select {
			case <-r.done:
				r.ret, r.ok = time.Since(t0), true
			case <-time.After(silentBound(idle, margin) + sharedExtra(r.svc, idle)):
				r.ret = silentBound(idle, margin) + sharedExtra(r.svc, idle)
			}
		}(r)
	}
	wg.Wait()
	for _, r := range runs {
		r.cli.Close()
	}
	dg, what, dfd := settleRes(g0, fd0, 3*time.Second)
	sort.Slice(runs, func(i, j int) bool { return runs[i].svc+string(runs[i].stage) < runs[j].svc+string(runs[j].stage) })
	for _, r := range runs {
		verdict := "ok"
		if !r.ok {
			verdict = fmt.Sprintf("viol:handler-does-not-return:%s: handle() still running %v after the client fell silent (stage of %d bytes); the idle timeout is %v", r.svc, r.ret, len(r.stage), idle)
		}
		out := "returned-after-idle-timeout"
		if r.ok && r.ret < idle-2*time.Second {
			out = "returned-early"
		} else if r.ok && r.ret > idle+margin {
			out = "returned-after-second-timeout"
		} else if !r.ok {
			out = "still-running"
		}
		if os.Getenv("HT_C09_LONG") != "" {
			out += fmt.Sprintf(" (%.1fs)", r.ret.Seconds())
		}
		emit(fmt.Sprintf("@silent %s %s", r.svc, hx(r.stage)), out, verdict, true)
	}
	verdict := "ok"
	if dg > 0 {
		verdict = fmt.Sprintf("viol:goroutines-left-behind:after %d silent connections %d honeytrap goroutines more than before: %s", len(runs), dg, what)
	} else if dfd > 0 {
		verdict = fmt.Sprintf("viol:descriptors-left-behind:after %d silent connections %d descriptors more than before", len(runs), dfd)
	}
	emit("@silent-all "+itoa(len(runs)), fmt.Sprintf("g=%d fd=%d", dg, maxInt(dfd, 0)), verdict, true)
}

// ---- model-compared: the datagram read loop and the ftp session ledger ----

func runRelUDP(length, chunk, fuel int) {
	line := fmt.Sprintf("rel udp %d %d %d", length, chunk, fuel)
	c := &listener.DummyUDPConn{Buffer: make([]byte, length)}
	buf := make([]byte, chunk)
	out := "spin"
	for k := 1; k <= fuel; k++ {
		if _, err := c.Read(buf); err != nil {
			out = itoa(k)
			break
		}
	}
	verdict := "ok"
	if out == "spin" && chunk > 0 {
		verdict = fmt.Sprintf("viol:datagram-read-never-ends:a %d-byte datagram read %d bytes at a time reports no end of stream within %d reads", length, chunk, fuel)
	}
	emit(line, out, verdict, length > 0)
}

func countG(name string) int {
	n := 0
	for k, v := range htGoroutines() {
		if strings.Contains(k, name) {
			n += v
		}
	}
	return n
}

var pasvRe = regexp.MustCompile(`\((\d+),(\d+),(\d+),(\d+),(\d+),(\d+)\)`)

// runRelFTP: cmds of p (PASV), c (connect to the passive port), t (LIST), o (NOOP)
func runRelFTP(cmds []string) {
	lab := c09Lab()
	line := "rel ftp " + strings.Join(cmds, " ")
	verdict := "ok"
	rep0, acc0 := countG("ftpService).Handle.func"), countG("GoListenAndServe.func")
	cli, done := serveTCP(lab, "ftp")
	cli.SetDeadline(time.Now().Add(20 * time.Second))
	br := bufio.NewReader(cli)
	readReply := func() string { // one reply line; preliminary replies (1xx) are skipped
		for {
			l, err := br.ReadString('\n')
			if err != nil || !strings.HasPrefix(l, "1") {
				return l
			}
		}
	}
	readReply() // greeting
	cli.Write([]byte("USER anonymous\r\n"))
	readReply()
	cli.Write([]byte("PASS anonymous\r\n"))
	readReply()
	port := 0
	var datas []net.Conn
	for _, c := range cmds {
		switch c {
		case "p":
			cli.Write([]byte("PASV\r\n"))
			if m := pasvRe.FindStringSubmatch(readReply()); m != nil {
				var hi, lo int
				fmt.Sscan(m[5], &hi)
				fmt.Sscan(m[6], &lo)
				port = hi*256 + lo
			}
		case "c":
			if port != 0 {
				if d, err := net.DialTimeout("tcp", fmt.Sprintf("127.0.0.1:%d", port), time.Second); err == nil {
					// the service's data sockets speak TLS whenever it has a certificate
					td := tls.Client(d, &tls.Config{InsecureSkipVerify: true})
					datas = append(datas, td)
					go ioutil.ReadAll(td)
				}
				port = 0
				time.Sleep(5 * time.Millisecond)
			}
		case "t":
			cli.Write([]byte("LIST\r\n"))
			readReply()
			time.Sleep(5 * time.Millisecond)
		case "o":
			cli.Write([]byte("NOOP\r\n"))
			readReply()
		}
	}
	// wait for pending acceptor exits to show
	time.Sleep(10 * time.Millisecond)
	dg := countG("ftpService).Handle.func") - rep0
	dl := countG("GoListenAndServe.func") - acc0
	cli.Close()
	select {
	case <-done:
	case <-time.After(3 * time.Second):
		verdict = "viol:handler-does-not-return:ftp: handle() still running 3 s after the client closed"
	}
	for _, d := range datas {
		d.Close()
	}
	ag, al := 0, 0
	for i := 0; i < 100; i++ {
		ag = countG("ftpService).Handle.func") - rep0
		al = countG("GoListenAndServe.func") - acc0
		if ag <= 0 && al <= 0 {
			break
		}
		time.Sleep(10 * time.Millisecond)
	}
	if (ag > 0 || al > 0) && verdict == "ok" {
		verdict = fmt.Sprintf("viol:goroutines-left-behind:ftp: after the session %d reporter and %d passive-port goroutines remain", ag, al)
	}
	emit(line, fmt.Sprintf("during=%d/%d after=%d/%d", dg+dl, dl, ag+al, al), verdict, len(cmds) > 0)
}

// runRelSSH: "@relssh <n> <k>": n sequential authenticated ssh sessions that send exec plus k further channel requests
// in one burst and close; handle() must return, nothing may stay behind
func runRelSSH(n, k int) {
	lab := c09Lab()
	line := fmt.Sprintf("@relssh %d %d", n, k)
	verdict := "ok"
	g0 := htGoroutines()
	fd0 := fdCount()
	for i := 0; i < n && verdict == "ok"; i++ {
		cli, done := serveTCP(lab, "ssh-simulator")
		cli.SetDeadline(time.Now().Add(10 * time.Second))
		cc := &ssh.ClientConfig{User: "root", Auth: []ssh.AuthMethod{ssh.Password("root")}, HostKeyCallback: ssh.InsecureIgnoreHostKey(), Timeout: 5 * time.Second}
		c, chans, reqs, err := ssh.NewClientConn(cli, "lab", cc)
		if err == nil {
			go ssh.DiscardRequests(reqs)
			go func() {
				for range chans {
				}
			}()
			if ch, rq, err := c.OpenChannel("session", nil); err == nil {
				go ssh.DiscardRequests(rq)
				ch.SendRequest("exec", false, []byte{0, 0, 0, 2, 'i', 'd'})
				for j := 0; j < k; j++ {
					ch.SendRequest("env", false, []byte{0, 0, 0, 1, 'A', 0, 0, 0, 1, 'b'})
				}
				time.Sleep(20 * time.Millisecond)
			}
			c.Close()
		}
		cli.Close()
		select {
		case <-done:
		case <-time.After(4 * time.Second):
			verdict = fmt.Sprintf("viol:handler-does-not-return:ssh-simulator: handle() still running 4 s after a client that sent exec and %d more channel requests closed", k)
		}
	}
	dg, what, dfd := settleRes(g0, fd0, 1500*time.Millisecond)
	if dg > 0 && verdict == "ok" {
		verdict = fmt.Sprintf("viol:goroutines-left-behind:ssh-simulator: after %d sessions %d honeytrap goroutines more than before: %s", n, dg, what)
	}
	emit(line, fmt.Sprintf("g=%d fd=%d", dg, maxInt(dfd, 0)), verdict, true)
}

// ---- inputs: per service a well-formed dialogue prefix, plus generic ones ----

func c09Inputs(svc string, r *Rng) [][]byte {
	if svc == "shared" {
		svc = "http"
	}
	svc = strings.TrimSuffix(svc, "-tcp") // the stream twin of a datagram service gets the same inputs
	gen := map[string]func(*Rng) []unit{"ftp": genFTP, "telnet": genTelnet, "memcached": genMemcached, "redis": genRedis, "smtp": genSMTP, "http": genHTTP}
	ins := [][]byte{nil, []byte("\r\n"), r.Bytes(r.Range(1, 40)), []byte("GET / HTTP/1.1\r\nHost: x\r\n\r\n")}
	if g, ok := gen[svc]; ok {
		b, _ := dialogue(g(r))
		ins = append(ins, b, b[:len(b)/2])
	}
	switch svc {
	case "redis":
		ins = append(ins, []byte("*2\r\n$3\r\nGET\r\n$4611686018427387904\r\nab\r\n"), []byte("*3\r\n$3\r\nSET\r\n$1\r\nk\r\n$18446744073709551615\r\nfoo\r\n"),
			[]byte("*1000000000\r\n$4\r\nPING\r\n"), []byte("*0\r\n"), []byte("$2000000\r\nab\r\n"))
	case "memcached":
		ins = append(ins, []byte("set k 0 0 4000000000\r\nab\r\n"), []byte("set k 0 0 -1\r\n"), []byte("set k 0 0\r\n"))
	case "smtp":
		ins = append(ins, []byte("EHLO x\r\nMAIL FROM:<a@b>\r\nBDAT\r\n"), []byte("EHLO x\r\nMAIL FROM:<a@b>\r\nBDAT 2000000000 LAST\r\nab"), []byte("EHLO x\r\nMAIL FROM:<a@b>\r\nDATA\r\nSubject: x\r\n\r\nno end"))
	case "http":
		ins = append(ins, []byte("POST / HTTP/1.1\r\nHost: h\r\nContent-Length: 4000000000\r\n\r\nab"), []byte("POST / HTTP/1.1\r\nHost: h\r\nTransfer-Encoding: chunked\r\n\r\nffffffff\r\nab"))
	case "ftp":
		ins = append(ins, []byte("USER anonymous\r\nPASS anonymous\r\nPASV\r\nPASV\r\nEPSV\r\n"))
	case "ipp":
		q := ippRandReq(r, 100)
		raw := q.encode()
		ins = append(ins, []byte(fmt.Sprintf("POST /ipp HTTP/1.1\r\nHost: p\r\nContent-Type: application/ipp\r\nContent-Length: %d\r\n\r\n", len(raw))+string(raw)))
	case "ldap":
		ins = append(ins, ldapBindReq(1, "cn=root", "pw"), append(ldapBindReq(1, "", ""), ldapOpReq(2, 0x4a)...), ldapBindReq(1, "cn=root", "pw")[:9])
	case "vnc":
		ins = append(ins, []byte("RFB 003.008\n"), []byte("RFB 003.008\n\x01\x01"), append([]byte("RFB 003.008\n\x01\x01"), []byte{0, 0, 0, 0, 32, 24, 0, 1, 0, 255, 0, 255, 0, 255, 16, 8, 0, 0, 0, 0, 3, 0, 0, 0, 0, 0, 0, 100, 0, 100}...))
		// a pixel format the frame pusher cannot encode (no true colour), then more update requests than its queue holds, in
		// one burst
		{
			b := append([]byte("RFB 003.008\n\x01\x01"), []byte{0, 0, 0, 0, 8, 8, 0, 0, 0, 7, 0, 7, 0, 3, 0, 3, 6, 0, 0, 0}...)
			for i := 0; i < 300; i++ {
				b = append(b, 3, byte(i%2), 0, 0, 0, 0, 0, 100, 0, 100)
			}
			ins = append(ins, b)
		}
	case "ssh-auth", "ssh-simulator":
		ins = append(ins, []byte("SSH-2.0-OpenSSH_8.0\r\n"), append([]byte("SSH-2.0-x\r\n"), r.Bytes(64)...))
	case "adb":
		ins = append(ins, append([]byte("CNXN\x00\x00\x00\x01\x00\x10\x00\x00\x07\x00\x00\x00\x32\x02\x00\x00\xbc\xb1\xa7\xb1"), []byte("host::\x00")...), []byte("CNXN\x00\x00"))
	case "elasticsearch", "eos", "ethereum", "docker", "cwmp":
		ins = append(ins, []byte("POST /x HTTP/1.1\r\nHost: h\r\nContent-Length: 17\r\nContent-Type: application/json\r\n\r\n{\"method\":\"x\",\"id\""), []byte("GET /_search?q=1 HTTP/1.1\r\nHost: h\r\n\r\n"))
	case "dns":
		b, _ := dnsQuery(r)
		ins = append(ins, b, b[:5])
	case "tftp":
		b, _ := tftpReq(r)
		ins = append(ins, b, []byte{0, 3, 0, 1}, []byte{0})
	case "snmp":
		b, _ := snmpGet(r)
		ins = append(ins, b, b[:7])
	case "counterstrike":
		b, _ := csQuery(r)
		ins = append(ins, b)
	case "ntp":
		ins = append(ins, append([]byte{0x1b}, make([]byte, 47)...))
	}
	return ins
}

func init() {
	register(&Stream{Name: "c09rel", Gen: genC09, Replay: func(l string) {
		f := strings.Fields(l)
		if len(f) == 5 && f[0] == "rel" && f[1] == "udp" {
			var a, b, c int
			fmt.Sscan(f[2], &a)
			fmt.Sscan(f[3], &b)
			fmt.Sscan(f[4], &c)
			runRelUDP(a, b, c)
		} else if len(f) >= 2 && f[0] == "rel" && f[1] == "ftp" {
			runRelFTP(f[2:])
		} else if len(f) == 3 && f[0] == "@relssh" {
			var a, b int
			fmt.Sscan(f[1], &a)
			fmt.Sscan(f[2], &b)
			runRelSSH(a, b)
		} else if len(f) == 3 && f[0] == "@silent" {
			runSilent(map[string][][]byte{f[1]: {unhx(f[2])}}, 30*time.Second, 6*time.Second)
		} else if len(f) == 5 && f[0] == "@rel" {
			var n int
			fmt.Sscan(f[3], &n)
			runRel(f[1], f[2], n, unhx(f[4]), 3*time.Second)
		}
	}})
}

func genC09(tier string, seed uint64) {
	r := NewRng(seed ^ 0xc09)
	lab := c09Lab()
	var names []string
	for _, s := range labServices {
		if _, ok := lab.byNm[s.name]; ok {
			names = append(names, s.name)
		}
	}
	n := 12
	if tier == "thorough" {
		n = 200
	}
	// warm-up pass (lazy initialisation), not recorded
	for _, svc := range names {
		if lab.byNm[svc].proto == "tcp" {
			cli, done := serveTCP(lab, svc)
			cli.Close()
			select {
			case <-done:
			case <-time.After(3 * time.Second):
			}
		}
	}
	time.Sleep(50 * time.Millisecond)
	// the datagram read loop: every length 0..40 x buffer sizes, larger sampled
	for l := 0; l <= 40; l++ {
		for _, ch := range []int{1, 2, 3, 7, 16, 512} {
			runRelUDP(l, ch, l+3)
		}
	}
	for i := 0; i < 40; i++ {
		l := r.Intn(65000)
		ch := []int{512, 1024, 4096, 32768, 65535}[r.Intn(5)]
		runRelUDP(l, ch, l/ch+3)
	}
	// ftp sessions: every command string up to length 3 over {p, c, t-if-not-pending, o}, longer sampled
	var rec func(cur []string, pending bool, depth int)
	rec = func(cur []string, pending bool, depth int) {
		if len(cur) > 0 {
			runRelFTP(cur)
		}
		if depth == 0 {
			return
		}
		for _, c := range []string{"p", "c", "t", "o"} {
			if c == "t" && pending {
				continue // a transfer with a passive port nobody connected to waits for the 30 s accept timeout
			}
			np := pending
			if c == "p" {
				np = true
			} else if c == "c" || c == "t" {
				np = false
			}
			rec(append(append([]string{}, cur...), c), np, depth-1)
		}
	}
	depth := 2
	if tier == "thorough" {
		depth = 4
	}
	rec(nil, false, depth)
	for i := 0; i < 6; i++ {
		var cs []string
		pending := false
		for k := r.Range(4, 9); k > 0; k-- {
			c := []string{"p", "p", "c", "t", "o"}[r.Intn(5)]
			if c == "t" && pending {
				c = "c"
			}
			if c == "p" {
				pending = true
			} else if c != "o" {
				pending = false
			}
			cs = append(cs, c)
		}
		runRelFTP(cs)
	}
	// silence at every stage: before the first byte, mid-command, mid-handshake (and a transfer command whose data
	// connection never comes)
	stages := map[string][][]byte{}
	for _, svc := range names {
		if lab.byNm[svc].proto != "tcp" {
			continue
		}
		ins := c09Inputs(svc, r)
		stages[svc] = [][]byte{nil}
		if tier == "thorough" {
			for _, in := range ins[4:] {
				stages[svc] = append(stages[svc], in, in[:len(in)/2])
			}
		} else if len(ins) > 4 {
			in := ins[4+r.Intn(len(ins)-4)]
			stages[svc] = append(stages[svc], in[:len(in)/2+1])
		}
	}
	// mid-handshake: the client asks for the TLS upgrade (or opens a TLS/ssh connection) and then stays silent, or
	// sends the beginning of a ClientHello and stays silent
	hello := []byte{0x16, 0x03, 0x01, 0x00, 0xc8, 0x01, 0x00, 0x00, 0xc4, 0x03, 0x03, 1, 2, 3, 4, 5, 6, 7, 8, 9}
	startTLS := append([]byte{0x30, 0x1d, 0x02, 0x01, 0x01, 0x77, 0x18, 0x80, 0x16}, "1.3.6.1.4.1.1466.20037"...)
	for svc, pre := range map[string][]byte{"smtp": []byte("EHLO x\r\nSTARTTLS\r\n"), "ftp": []byte("AUTH TLS\r\n"), "ldap": startTLS, "https": nil} {
		if _, ok := stages[svc]; ok {
			if pre != nil {
				stages[svc] = append(stages[svc], pre)
			}
			stages[svc] = append(stages[svc], append(append([]byte(nil), pre...), hello...))
		}
	}
	if tier == "thorough" {
		// a transfer command on a passive port nobody connects to waits for the accept timeout (30 s) before the
		// idle timeout of the control connection starts
		stages["ftp"] = append(stages["ftp"], []byte("USER anonymous\r\nPASS anonymous\r\nPASV\r\nLIST\r\n"))
	}
	runSilent(stages, 30*time.Second, 6*time.Second)
	// authenticated ssh sessions with bursts of channel requests
	for _, k := range []int{0, 3, 16, 17, 40} {
		runRelSSH(3, k)
	}
	for _, svc := range names {
		for k, in := range append(c09Inputs(svc, r), c01Inputs(svc, r)...) {
			cnt := 3
			if k == 0 || k >= 4 {
				cnt = n
			}
			runRel(svc, "close", cnt, in, 3*time.Second)
			if lab.byNm[svc].proto == "tcp" {
				runRel(svc, "half", 3, in, 3*time.Second)
			}
		}
	}
}
