package main

import (
	"bytes"
	"crypto/rand"
	"crypto/rsa"
	"fmt"
	"io"
	"io/ioutil"
	"net"
	"strings"
	"sync"
	"time"

	"github.com/honeytrap/honeytrap/server"
	"golang.org/x/crypto/ssh"
)

// C15, ssh proxy: a real ssh backend run by the harness; clients log in through the proxy.
//
// @relay ssh <user hex>:<password hex> <req type>:<payload hex>... | <data to backend hex> | <data from backend hex>
//   -> what the backend saw ("user,password reqs... data") ; oracle: credentials, channel requests and channel data
//      reach the backend unchanged and in order, the backend's output reaches the client, rejected passwords are
//      rejected, events name the client, the decoy is not connected to.

type sshReqRec struct {
	typ     string
	payload []byte
}

type sshBackend struct {
	ln       net.Listener
	mu       sync.Mutex
	logins   [][2]string // every password attempt seen
	reqs     []sshReqRec
	data     []byte
	conns    int
	reply    []byte // written to the channel after "shell"/"exec"
	goodPass string
	cfg      *ssh.ServerConfig
}

func (b *sshBackend) port() int { return b.ln.Addr().(*net.TCPAddr).Port }

func newSSHBackend() *sshBackend {
	ln, err := net.Listen("tcp", "127.0.0.1:0")
	if err != nil {
		panic(err)
	}
	b := &sshBackend{ln: ln, goodPass: "letmein"}
	key, _ := rsa.GenerateKey(rand.Reader, 2048)
	signer, _ := ssh.NewSignerFromKey(key)
	b.cfg = &ssh.ServerConfig{
		PasswordCallback: func(cm ssh.ConnMetadata, pw []byte) (*ssh.Permissions, error) {
			b.mu.Lock()
			b.logins = append(b.logins, [2]string{cm.User(), string(pw)})
			good := b.goodPass
			b.mu.Unlock()
			if string(pw) == good {
				return nil, nil
			}
			return nil, fmt.Errorf("denied")
		},
	}
	b.cfg.AddHostKey(signer)
	go func() {
		for {
			c, err := ln.Accept()
			if err != nil {
				return
			}
			b.mu.Lock()
			b.conns++
			b.mu.Unlock()
			go b.serve(c)
		}
	}()
	return b
}

func (b *sshBackend) serve(c net.Conn) {
	defer c.Close()
	c.SetDeadline(time.Now().Add(15 * time.Second))
	sc, chans, reqs, err := ssh.NewServerConn(c, b.cfg)
	if err != nil {
		return
	}
	defer sc.Close()
	go ssh.DiscardRequests(reqs)
	for nc := range chans {
		if nc.ChannelType() != "session" {
			nc.Reject(ssh.UnknownChannelType, "no")
			continue
		}
		ch, rq, err := nc.Accept()
		if err != nil {
			continue
		}
		var wg sync.WaitGroup
		wg.Add(1)
		go func() {
			defer wg.Done()
			d, _ := ioutil.ReadAll(ch)
			b.mu.Lock()
			b.data = append(b.data, d...)
			b.mu.Unlock()
		}()
		for r := range rq {
			b.mu.Lock()
			b.reqs = append(b.reqs, sshReqRec{r.Type, append([]byte(nil), r.Payload...)})
			reply := b.reply
			b.mu.Unlock()
			ok := r.Type != "x11-req"
			if r.WantReply {
				r.Reply(ok, nil)
			}
			if r.Type == "shell" || r.Type == "exec" {
				go func() {
					ch.Write(reply)
					wg.Wait() // the client's end of data
					ch.SendRequest("exit-status", false, []byte{0, 0, 0, 0})
					ch.Close()
				}()
			}
		}
	}
}

func (b *sshBackend) reset(reply []byte) {
	b.mu.Lock()
	b.logins, b.reqs, b.data, b.conns, b.reply = nil, nil, nil, 0, reply
	b.mu.Unlock()
}

type sshLab struct {
	hc    *server.Honeytrap
	cap   *evCap
	be    *sshBackend
	decoy *tcpBackend
	port  int
}

var sshlab *sshLab

func sshLabGet() *sshLab {
	if sshlab != nil {
		return sshlab
	}
	ensureDataDir()
	l := &sshLab{be: newSSHBackend(), decoy: newTCPBackend(), port: 2022}
	var b strings.Builder
	b.WriteString("[listener]\ntype = \"verif-rec\"\n")
	fmt.Fprintf(&b, "[director.fs]\ntype = \"forward\"\nhost = \"127.0.0.1:%d\"\n", l.be.port())
	fmt.Fprintf(&b, "[service.sp]\ntype = \"ssh-proxy\"\ndirector = \"fs\"\n[[port]]\nport = \"tcp/%d\"\nservices = [\"sp\"]\n", l.port)
	b.WriteString("[channel.cap]\ntype = \"verif-evs\"\nname = \"cap\"\n[[filter]]\nchannel = [\"cap\"]\n")
	lastEvCap = nil
	hc, _, err := runServer(b.String())
	if err != nil || lastEvCap == nil {
		panic(fmt.Sprint("ssh lab: ", err))
	}
	l.hc, l.cap = hc, lastEvCap
	sshlab = l
	return l
}

func runRelaySSH(user, pass string, reqs []sshReqRec, toBackend, fromBackend []byte) {
	runRelaySSHTries(user, nil, pass, reqs, toBackend, fromBackend)
}

// wrong: passwords presented (and rejected by the backend) on the same connection before `pass`
func runRelaySSHTries(user string, wrong []string, pass string, reqs []sshReqRec, toBackend, fromBackend []byte) {
	l := sshLabGet()
	var rs []string
	for _, r := range reqs {
		rs = append(rs, r.typ+":"+hx(r.payload))
	}
	line := fmt.Sprintf("@relay ssh %s:%s %s | %s | %s", hx([]byte(user)), hx([]byte(pass)), strings.Join(rs, " "), hx(toBackend), hx(fromBackend))
	if len(wrong) > 0 {
		var ws []string
		for _, w := range wrong {
			ws = append(ws, hx([]byte(w)))
		}
		line += " | " + strings.Join(ws, ",")
	}
	verdict := "ok"
	viol := func(sig, d string) {
		if verdict == "ok" {
			verdict = "viol:" + sig + ":" + d
		}
	}
	l.be.reset(fromBackend)
	l.decoy.reset(nil)
	srv, cli := tcpPair()
	pc := &portConn{Conn: srv, laddr: &net.TCPAddr{IP: net.IPv4(127, 0, 0, 1), Port: l.port}}
	done := make(chan struct{})
	go func() { defer close(done); defer func() { recover() }(); l.hc.VerifHandle(pc) }()
	cli.SetDeadline(time.Now().Add(15 * time.Second))
	seq := append(append([]string(nil), wrong...), pass)
	presented := 0
	auth := ssh.RetryableAuthMethod(ssh.PasswordCallback(func() (string, error) {
		if presented >= len(seq) {
			return "", fmt.Errorf("no more passwords")
		}
		presented++
		return seq[presented-1], nil
	}), len(seq))
	cc := &ssh.ClientConfig{User: user, Auth: []ssh.AuthMethod{auth}, HostKeyCallback: ssh.InsecureIgnoreHostKey(), Timeout: 5 * time.Second}
	c, chans, gr, err := ssh.NewClientConn(cli, "lab", cc)
	accepted := err == nil
	var got []byte
	if accepted {
		go ssh.DiscardRequests(gr)
		go func() {
			for range chans {
			}
		}()
		ch, rq, err := c.OpenChannel("session", nil)
		if err != nil {
			viol("channel-not-relayed", "the session channel could not be opened through the proxy: "+err.Error())
		} else {
			exit := make(chan struct{})
			go func() {
				for r := range rq {
					if r.Type == "exit-status" {
						select {
						case <-exit:
						default:
							close(exit)
						}
					}
				}
			}()
			for _, r := range reqs {
				ch.SendRequest(r.typ, true, r.payload)
			}
			var rd sync.WaitGroup
			rd.Add(1)
			go func() { defer rd.Done(); got, _ = ioutil.ReadAll(io.LimitReader(ch, 1<<20)) }()
			ch.Write(toBackend)
			ch.CloseWrite()
			rdDone := make(chan struct{})
			go func() { rd.Wait(); close(rdDone) }()
			select {
			case <-rdDone:
			case <-time.After(8 * time.Second):
				viol("reply-not-relayed", "the backend's end of the channel does not reach the client within 8 s")
			}
			ch.Close()
		}
		c.Close()
	}
	cli.Close()
	select {
	case <-done:
	case <-time.After(8 * time.Second):
		viol("proxy-does-not-return", "ssh-proxy: handle() still running 8 s after the client closed")
	}
	time.Sleep(5 * time.Millisecond)
	l.be.mu.Lock()
	logins, breqs, bdata, conns := append([][2]string(nil), l.be.logins...), append([]sshReqRec(nil), l.be.reqs...), append([]byte(nil), l.be.data...), l.be.conns
	good := l.be.goodPass
	l.be.mu.Unlock()
	if len(logins) == 0 || logins[len(logins)-1] != [2]string{user, pass} {
		viol("credentials-changed", fmt.Sprintf("client presented %q/%q, the backend saw %v", user, pass, logins))
	}
	if len(wrong) > 0 {
		// every attempt of the connection reaches the backend, in order: it alone decides
		ok := len(logins) == len(seq)
		for i := range seq {
			ok = ok && i < len(logins) && logins[i] == [2]string{user, seq[i]}
		}
		if !ok {
			viol("credentials-changed", fmt.Sprintf("client presented %d passwords on one connection, the backend saw %d attempts: %v", len(seq), len(logins), logins))
		}
	}
	if accepted != (pass == good) {
		viol("login-decision-changed", fmt.Sprintf("backend accepts only %q; the client presenting %q was accepted=%v", good, pass, accepted))
	}
	if accepted && verdict == "ok" {
		var want, have []string
		for _, r := range reqs {
			want = append(want, r.typ+":"+hx(r.payload))
		}
		for _, r := range breqs {
			have = append(have, r.typ+":"+hx(r.payload))
		}
		if strings.Join(want, " ") != strings.Join(have, " ") {
			viol("channel-requests-changed", fmt.Sprintf("client sent %v, the backend received %v", want, have))
		}
		if !bytes.Equal(bdata, toBackend) {
			viol("channel-data-changed", fmt.Sprintf("client wrote %d bytes, the backend read %d", len(toBackend), len(bdata)))
		}
		hasRun := false
		for _, r := range reqs {
			if r.typ == "shell" || r.typ == "exec" {
				hasRun = true
			}
		}
		if hasRun && !bytes.Equal(got, fromBackend) {
			viol("reply-changed", fmt.Sprintf("backend wrote %d bytes, the client read %d", len(fromBackend), len(got)))
		}
		// events: the login and every request, naming the client
		src := cli.LocalAddr().(*net.TCPAddr)
		nreq, nlogin := 0, 0
		for _, e := range l.cap.from(src.IP.String() + ":" + fmt.Sprint(src.Port)) {
			switch e.Get("type") {
			case "ssh-request":
				nreq++
			case "password-authentication":
				if e.Get("ssh.username") == user && e.Get("ssh.password") == pass {
					nlogin++
				}
			}
		}
		if nlogin == 0 {
			viol("request-not-recorded", "no password-authentication event with the presented credentials names the client")
		}
		if nreq < len(reqs) {
			viol("request-not-recorded", fmt.Sprintf("%d channel requests, %d ssh-request events naming the client", len(reqs), nreq))
		}
	}
	if _, n := l.decoy.got(); n != 0 {
		viol("connection-to-other-address", "the decoy listener was connected to")
	}
	// the proxy dials the backend once per password attempt (the attempt is made there)
	if pass == good && conns != len(seq) {
		viol("extra-backend-connection", fmt.Sprintf("%d connections to the backend for one client login", conns))
	}
	emit(line, fmt.Sprintf("accepted=%v reqs=%d data=%d reply=%d", accepted, len(breqs), len(bdata), len(got)), verdict, accepted)
}

func genC15SSHTries(tier string, r *Rng) {
	sstr := func(x string) []byte { return append([]byte{0, 0, 0, byte(len(x))}, x...) }
	ks := []int{1, 5, 6, 8}
	if tier == "thorough" {
		ks = []int{1, 2, 3, 4, 5, 6, 7, 8, 12, 20}
	}
	for _, k := range ks {
		var wrong []string
		for i := 0; i < k; i++ {
			wrong = append(wrong, word(r, 8)+"!")
		}
		runRelaySSHTries(word(r, 6), wrong, "letmein", []sshReqRec{{"exec", sstr("id")}}, nil, []byte("uid=0(root)\n"))
	}
	// all rejected
	runRelaySSHTries(word(r, 6), []string{"a", "b", "c", "d", "e", "f", "g"}, "h", []sshReqRec{{"shell", nil}}, nil, nil)
}

func genC15SSH(tier string, r *Rng) {
	genC15SSHTries(tier, r)
	n := 10
	if tier == "thorough" {
		n = 60
	}
	sstr := func(x string) []byte { return append([]byte{0, 0, 0, byte(len(x))}, x...) }
	for i := 0; i < n; i++ {
		user := word(r, 8)
		pass := "letmein"
		if i%4 == 3 {
			pass = word(r, 10)
		}
		var reqs []sshReqRec
		if r.Bool() {
			reqs = append(reqs, sshReqRec{"env", append(sstr("LANG"), sstr("C."+word(r, 4))...)})
		}
		if r.Bool() {
			reqs = append(reqs, sshReqRec{"pty-req", append(append(sstr("xterm"), 0, 0, 0, 80, 0, 0, 0, 24, 0, 0, 0, 0, 0, 0, 0, 0), sstr("")...)})
		}
		if r.Bool() {
			reqs = append(reqs, sshReqRec{"exec", sstr("uname -a; " + word(r, 12))})
		} else {
			reqs = append(reqs, sshReqRec{"shell", nil})
		}
		to := r.Bytes([]int{0, 1, 100, 5000, 65536}[r.Intn(5)])
		from := r.Bytes([]int{0, 3, 400, 65536}[r.Intn(4)])
		runRelaySSH(user, pass, reqs, to, from)
	}
}
