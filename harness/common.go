// Command harness runs the real honeytrap code (from the repository the go.mod
// replace points at, built with -tags verif) on generated cases and prints, per
// case, one tab-separated record:
//
//	<case line for the Lean driver> \t <canonical implementation output> \t <oracle verdict> \t <nontrivial 0|1>
//
// The oracle verdict is "ok" or "viol:<signature>:<detail>"; it is computed from
// the implementation's behaviour alone, by the executable statement of the
// property, independently of the model.
package main

import (
	"bufio"
	"encoding/hex"
	"fmt"
	"os"
	"sort"
	"strconv"
	"strings"
)

// ---- PRNG: every random choice derives from one splitmix64 state ----

type Rng struct{ s uint64 }

func NewRng(seed uint64) *Rng { return &Rng{s: seed*0x9E3779B97F4A7C15 + 0x1234567} }

func (r *Rng) Next() uint64 {
	r.s += 0x9E3779B97F4A7C15
	z := r.s
	z = (z ^ (z >> 30)) * 0xBF58476D1CE4E5B9
	z = (z ^ (z >> 27)) * 0x94D049BB133111EB
	return z ^ (z >> 31)
}
func (r *Rng) Intn(n int) int {
	if n <= 0 {
		return 0
	}
	return int(r.Next() % uint64(n))
}
func (r *Rng) Range(lo, hi int) int { return lo + r.Intn(hi-lo+1) }
func (r *Rng) Bool() bool           { return r.Next()&1 == 1 }
func (r *Rng) Bytes(n int) []byte {
	b := make([]byte, n)
	for i := range b {
		b[i] = byte(r.Next())
	}
	return b
}
func (r *Rng) Pick(xs []int) int { return xs[r.Intn(len(xs))] }

// ---- output ----

var out = bufio.NewWriterSize(os.Stdout, 1<<20)

// emit writes one record.
func emit(caseLine, impl, verdict string, nontrivial bool) {
	nt := "0"
	if nontrivial {
		nt = "1"
	}
	fmt.Fprintf(out, "%s\t%s\t%s\t%s\n", caseLine, impl, verdict, nt)
}

func hx(b []byte) string {
	if len(b) == 0 {
		return "-"
	}
	return hex.EncodeToString(b)
}

func unhx(s string) []byte {
	if s == "-" {
		return nil
	}
	b, err := hex.DecodeString(s)
	if err != nil {
		panic(err)
	}
	return b
}

func b01(b bool) string {
	if b {
		return "1"
	}
	return "0"
}

func itoa(i int) string { return strconv.Itoa(i) }

// ---- stream registry ----

type Stream struct {
	Name string
	// Gen produces records for the given tier and seed.
	Gen func(tier string, seed uint64)
	// Replay runs the implementation on literal case lines.
	Replay func(caseLine string)
}

var streams = map[string]*Stream{}

func register(s *Stream) { streams[s.Name] = s }

func main() {
	defer out.Flush()
	if len(os.Args) < 2 {
		var names []string
		for n := range streams {
			names = append(names, n)
		}
		sort.Strings(names)
		fmt.Fprintln(os.Stderr, "usage: harness <stream> [--tier quick|thorough] [--seed n] | harness <stream> --replay <file>\nstreams:", strings.Join(names, " "))
		os.Exit(2)
	}
	name := os.Args[1]
	s, ok := streams[name]
	if !ok {
		fmt.Fprintln(os.Stderr, "unknown stream", name)
		os.Exit(2)
	}
	tier, seed, replay := "quick", uint64(1), ""
	for i := 2; i < len(os.Args); i++ {
		switch os.Args[i] {
		case "--tier":
			i++
			tier = os.Args[i]
		case "--seed":
			i++
			v, _ := strconv.ParseUint(os.Args[i], 10, 64)
			seed = v
		case "--replay":
			i++
			replay = os.Args[i]
		}
	}
	if replay != "" {
		f, err := os.Open(replay)
		if err != nil {
			fmt.Fprintln(os.Stderr, err)
			os.Exit(2)
		}
		sc := bufio.NewScanner(f)
		sc.Buffer(make([]byte, 1<<20), 1<<26)
		for sc.Scan() {
			line := strings.TrimSpace(sc.Text())
			if line == "" || strings.HasPrefix(line, "#") {
				continue
			}
			s.Replay(line)
		}
		return
	}
	s.Gen(tier, seed)
}

func (r *Rng) Pick2(a, b string) string {
	if r.Bool() {
		return a
	}
	return b
}
