package main

import (
	"fmt"
	"net"
	"strings"

	"github.com/honeytrap/honeytrap/listener/canary/ethernet"
	"github.com/honeytrap/honeytrap/listener/canary/icmp"
	"github.com/honeytrap/honeytrap/listener/canary/ipv4"
	"github.com/honeytrap/honeytrap/listener/canary/tcp"
	"github.com/honeytrap/honeytrap/listener/canary/udp"
)

// C02 (parser level): the raw listener's packet parsers against HT.Pkt.
//
// case line:  pkt <eth|ipv4|tcp|udp|icmp> <hex>   |   pkt csum <hex data> <hex src4> <hex dst4>

func init() {
	register(&Stream{Name: "c02parse", Gen: genC02Parse, Replay: func(l string) {
		f := strings.Fields(l)
		if len(f) >= 3 && f[0] == "pkt" {
			runPkt(f[1:])
		}
	}})
}

func ip4hex(ip net.IP) string { return hx([]byte(ip.To4())) }

func runPkt(f []string) {
	kind := f[0]
	data := unhx(f[1])
	line := "pkt " + strings.Join(f, " ")
	impl, verdict := "", "ok"
	nontrivial := false
	func() {
		defer func() {
			if r := recover(); r != nil {
				impl = "panic"
				sig := kind + "-parser-panic"
				switch {
				case kind == "ipv4":
					sig = "ipv4-totallen-lt-20"
				case kind == "tcp" && len(data) < 20:
					sig = "tcp-segment-lt-20"
				case kind == "tcp":
					sig = "tcp-option-kind-without-length"
				case kind == "eth" && len(data) < 14:
					verdict = "ok" // never delivered by the kernel; outside the property's quantifier
					return
				}
				verdict = fmt.Sprintf("viol:%s:%v", sig, r)
			}
		}()
		buf := append([]byte(nil), data...)
		switch kind {
		case "eth":
			e, _ := ethernet.Parse(buf)
			impl = fmt.Sprintf("ok dst=%s src=%s type=%d pay=%s", hx(e.Destination), hx(e.Source), e.Type, hx(e.Payload))
			nontrivial = true
		case "ipv4":
			h, err := ipv4.Parse(buf)
			if err != nil {
				impl = "err"
				return
			}
			nontrivial = true
			impl = fmt.Sprintf("ok v=%d hl=%d tl=%d p=%d src=%s dst=%s opts=%s pay=%s", h.Version, h.Len, h.TotalLen, h.Protocol,
				ip4hex(h.Src), ip4hex(h.Dst), hx(h.Options), hx(h.Payload))
		case "udp":
			h, err := udp.Unmarshal(buf)
			if err != nil {
				impl = "err"
				return
			}
			nontrivial = true
			impl = fmt.Sprintf("ok sp=%d dp=%d len=%d ck=%d pay=%s", h.Source, h.Destination, h.Length, h.Checksum, hx(h.Payload))
		case "icmp":
			h, err := icmp.Parse(buf)
			if err != nil {
				impl = "err"
				return
			}
			nontrivial = true
			impl = fmt.Sprintf("ok tc=%d ck=%d id=%d seq=%d", uint16(h.TypeCode), h.Checksum, h.ID, h.Seq)
		case "tcp":
			h, err := tcp.Parse(buf)
			st := "ok "
			if err != nil {
				st = "err "
			} else {
				nontrivial = true
			}
			var os []string
			for _, o := range h.Options {
				os = append(os, fmt.Sprintf("%d:%d:%s", uint8(o.OptionType), o.OptionLength, hx(o.OptionData)))
			}
			impl = st + fmt.Sprintf("sp=%d dp=%d seq=%d ack=%d off=%d ecn=%d ctrl=%d win=%d ck=%d urg=%d opts=[%s] pad=%s pay=%s",
				h.Source, h.Destination, h.SeqNum, h.AckNum, h.DataOffset, h.ECN, uint8(h.Ctrl), h.Window, h.Checksum, h.Urgent,
				strings.Join(os, ","), hx(h.Padding), hx(h.Payload))
		case "csum":
			src, dst := unhx(f[2]), unhx(f[3])
			// the only exported way to the checksum routine: UnmarshalWithChecksum compares csum(data) with the
			// header's field; recover the value by binary agreement: set the field to the reference value and see.
			want := refTCPChecksum(buf, src, dst)
			seg := append([]byte(nil), buf...)
			if len(seg) >= 20 {
				seg[16], seg[17] = byte(want>>8), byte(want)
				_, err := tcp.UnmarshalWithChecksum(seg, net.IP(src), net.IP(dst))
				if err == tcp.ErrInvalidChecksum {
					verdict = fmt.Sprintf("viol:tcp-checksum-mismatch:reference %d rejected", want)
					impl = "mismatch"
				} else {
					impl = fmt.Sprint(want)
					nontrivial = true
				}
			} else {
				impl = fmt.Sprint(want)
			}
		}
	}()
	emit(line, impl, verdict, nontrivial)
}

// refTCPChecksum: RFC 793/1071 checksum over pseudo header + segment with the checksum field taken as zero.
func refTCPChecksum(seg, src, dst []byte) uint16 {
	var sum uint32
	add := func(b []byte) {
		for i := 0; i+1 < len(b); i += 2 {
			sum += uint32(b[i])<<8 | uint32(b[i+1])
		}
		if len(b)%2 == 1 {
			sum += uint32(b[len(b)-1]) << 8
		}
	}
	add(src)
	add(dst)
	sum += 6
	sum += uint32(len(seg))
	s := append([]byte(nil), seg...)
	if len(s) >= 18 {
		s[16], s[17] = 0, 0
	}
	add(s)
	for sum>>16 != 0 {
		sum = sum&0xffff + sum>>16
	}
	return ^uint16(sum)
}

func ipv4Frame(ihl, totalLen, proto, actual int, r *Rng) []byte {
	b := make([]byte, actual)
	if r != nil {
		copy(b, r.Bytes(actual))
	}
	if actual > 0 {
		b[0] = byte(4<<4 | ihl&15)
	}
	if actual > 3 {
		b[2], b[3] = byte(totalLen>>8), byte(totalLen)
	}
	if actual > 9 {
		b[9] = byte(proto)
	}
	if actual > 19 {
		copy(b[12:16], []byte{10, 0, 0, 1})
		copy(b[16:20], []byte{127, 0, 0, 1})
	}
	return b
}

func tcpSeg(dataOff int, opts []byte, payload []byte, flags byte) []byte {
	b := make([]byte, 20)
	b[0], b[1] = 0x30, 0x39
	b[2], b[3] = 0, 80
	b[4], b[5], b[6], b[7] = 1, 2, 3, 4
	b[12] = byte(dataOff << 4)
	b[13] = flags
	b[14], b[15] = 0xff, 0xff
	b = append(b, opts...)
	b = append(b, payload...)
	return b
}

func genC02Parse(tier string, seed uint64) {
	r := NewRng(seed)
	// ethernet: lengths 12..20 and a full-size frame
	for n := 12; n <= 20; n++ {
		runPkt([]string{"eth", hx(r.Bytes(n))})
	}
	runPkt([]string{"eth", hx(r.Bytes(1600))})
	// ipv4: IHL x total length x actual length
	for _, actual := range []int{0, 1, 19, 20, 21, 24, 40, 59, 60, 61, 100} {
		for ihl := 0; ihl <= 15; ihl++ {
			tls := map[int]bool{}
			for t := 0; t <= 22; t++ {
				tls[t] = true
			}
			for _, t := range []int{ihl*4 - 1, ihl * 4, ihl*4 + 1, actual - 1, actual, actual + 1, 65535, 256, 255} {
				if t >= 0 {
					tls[t] = true
				}
			}
			for t := range tls {
				for _, proto := range []int{6, 17} {
					var rr *Rng
					if proto == 17 {
						rr = r
					}
					runPkt([]string{"ipv4", hx(ipv4Frame(ihl, t, proto, actual, rr))})
				}
			}
		}
	}
	// tcp: short segments
	for n := 0; n <= 24; n++ {
		b := tcpSeg(5, nil, nil, 2)
		if n <= len(b) {
			runPkt([]string{"tcp", hx(b[:n])})
		} else {
			runPkt([]string{"tcp", hx(append(b, r.Bytes(n-20)...))})
		}
	}
	// tcp: data offset 0..15 x trailing length
	for off := 0; off <= 15; off++ {
		for _, extra := range []int{0, 1, 3, 4, 5, 8, 39, 40, 41, 60} {
			runPkt([]string{"tcp", hx(tcpSeg(off, make([]byte, extra), nil, 0x12))})
			runPkt([]string{"tcp", hx(tcpSeg(off, r.Bytes(extra), nil, 0x10))})
		}
	}
	// tcp: every option layout up to 3 (quick) / 4 (thorough) option bytes over a boundary alphabet,
	// header length rounded up with zero or non-zero filler, so the last option byte may be a lone kind
	alpha := []byte{0, 1, 2, 3, 4, 5, 8, 255}
	maxOpt := 3
	if tier == "thorough" {
		maxOpt = 4
		alpha = append(alpha, 6, 7, 40, 254)
	}
	var cur []byte
	var rec func()
	rec = func() {
		if len(cur) > 0 {
			// exact fit inside a 4-byte (or 8-byte) option area: pad *before* so that cur ends the area
			for _, area := range []int{4, 8} {
				if len(cur) > area {
					continue
				}
				for _, fill := range []byte{1, 2} { // NOP filler or a kind needing a length
					opts := make([]byte, area)
					for i := range opts {
						opts[i] = 1
					}
					copy(opts[area-len(cur):], cur)
					if fill == 2 {
						copy(opts, cur)
						for i := len(cur); i < area; i++ {
							opts[i] = 1
						}
					}
					runPkt([]string{"tcp", hx(tcpSeg(5+area/4, opts, []byte("xy"), 0x18))})
				}
			}
		}
		if len(cur) == maxOpt {
			return
		}
		for _, a := range alpha {
			cur = append(cur, a)
			rec()
			cur = cur[:len(cur)-1]
		}
	}
	rec()
	// udp: length field vs actual
	for n := 0; n <= 12; n++ {
		for _, l := range []int{0, 7, 8, 9, n - 1, n, n + 1, 65535} {
			if l < 0 {
				continue
			}
			b := r.Bytes(n)
			if n >= 6 {
				b[4], b[5] = byte(l>>8), byte(l)
			}
			runPkt([]string{"udp", hx(b)})
		}
	}
	for n := 0; n <= 12; n++ {
		runPkt([]string{"icmp", hx(r.Bytes(n))})
	}
	// random bytes through every parser; structured random tcp options
	nR := 3000
	if tier == "thorough" {
		nR = 40000
	}
	for i := 0; i < nR; i++ {
		n := r.Intn(80)
		if i%50 == 0 {
			n = 14 + r.Intn(1587)
		}
		b := r.Bytes(n)
		switch i % 5 {
		case 0:
			runPkt([]string{"ipv4", hx(b)})
		case 1:
			runPkt([]string{"tcp", hx(b)})
		case 2:
			// mostly valid options
			var opts []byte
			for k := r.Intn(6); k > 0; k-- {
				switch r.Intn(6) {
				case 0:
					opts = append(opts, 1)
				case 1:
					opts = append(opts, 2, 4, byte(r.Next()), byte(r.Next()))
				case 2:
					opts = append(opts, 8, 10)
					opts = append(opts, r.Bytes(8)...)
				case 3:
					opts = append(opts, 3, 3, 7)
				case 4:
					opts = append(opts, byte(r.Intn(256)), byte(r.Intn(12)))
					opts = append(opts, r.Bytes(r.Intn(6))...)
				case 5:
					opts = append(opts, 0)
				}
			}
			for len(opts)%4 != 0 {
				opts = append(opts, byte(r.Pick([]int{0, 1, 1, 1, 2, 200})))
			}
			if len(opts) > 40 {
				opts = opts[:40]
			}
			runPkt([]string{"tcp", hx(tcpSeg(5+len(opts)/4, opts, r.Bytes(r.Intn(20)), byte(r.Intn(64))))})
		case 3:
			runPkt([]string{"udp", hx(b)})
		case 4:
			seg := tcpSeg(5, nil, r.Bytes(r.Intn(60)), byte(r.Intn(64)))
			if i%3 == 0 {
				seg = append([]byte(nil), r.Bytes(20+r.Intn(1500))...)
			}
			runPkt([]string{"csum", hx(seg), hx(r.Bytes(4)), hx(r.Bytes(4))})
		}
	}
}
