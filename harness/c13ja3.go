package main

import (
	"context"
	"crypto/md5"
	"encoding/hex"
	"errors"
	"fmt"
	"net"
	"strings"
	"time"

	"github.com/honeytrap/honeytrap/services"
	tls "github.com/honeytrap/honeytrap/services/ja3/crypto/tls"
)

// C13: the vendored TLS stack's ClientHello parsing + JA3 against HT.JA3.
//
// case line: ja3 <version> <c1,c2,..|-> <type:bodyhex> ...       output: "<ja3 string> sni=<hex>" | "rejected"
// "@https ..." lines run the real https service and compare the event's digest/server name (oracle only).

func init() {
	register(&Stream{Name: "c13ja3", Gen: genC13, Replay: func(l string) {
		f := strings.Fields(l)
		if len(f) >= 3 && (f[0] == "ja3" || f[0] == "@https") {
			h := parseHelloLine(f[1:])
			if f[0] == "ja3" {
				runJA3(h, 0)
			} else {
				runHTTPS(h)
			}
		}
	}})
}

type ext struct {
	typ  int
	body []byte
}

type hello struct {
	version int
	ciphers []int
	exts    []ext
}

func (h hello) line() string {
	cs := "-"
	if len(h.ciphers) > 0 {
		var p []string
		for _, c := range h.ciphers {
			p = append(p, fmt.Sprint(c))
		}
		cs = strings.Join(p, ",")
	}
	var es []string
	for _, e := range h.exts {
		es = append(es, fmt.Sprintf("%d:%s", e.typ, hx(e.body)))
	}
	return strings.TrimSpace(fmt.Sprintf("%d %s %s", h.version, cs, strings.Join(es, " ")))
}

func parseHelloLine(f []string) hello {
	var h hello
	fmt.Sscan(f[0], &h.version)
	if f[1] != "-" {
		for _, c := range strings.Split(f[1], ",") {
			var v int
			fmt.Sscan(c, &v)
			h.ciphers = append(h.ciphers, v)
		}
	}
	for _, e := range f[2:] {
		p := strings.SplitN(e, ":", 2)
		var t int
		fmt.Sscan(p[0], &t)
		h.exts = append(h.exts, ext{t, unhx(p[1])})
	}
	return h
}

func be16(n int) []byte { return []byte{byte(n >> 8), byte(n)} }

// encode builds the handshake message (type 1) for the hello.
func (h hello) encode() []byte {
	body := be16(h.version)
	body = append(body, make([]byte, 32)...) // random
	body = append(body, 0)                   // empty session id
	body = append(body, be16(2*len(h.ciphers))...)
	for _, c := range h.ciphers {
		body = append(body, be16(c)...)
	}
	body = append(body, 1, 0) // null compression
	var ex []byte
	for _, e := range h.exts {
		ex = append(ex, be16(e.typ)...)
		ex = append(ex, be16(len(e.body))...)
		ex = append(ex, e.body...)
	}
	body = append(body, be16(len(ex))...)
	body = append(body, ex...)
	msg := []byte{1, byte(len(body) >> 16), byte(len(body) >> 8), byte(len(body))}
	return append(msg, body...)
}

// records wraps a handshake message into TLS records, fragmented at the given sizes (0 = one record).
func records(msg []byte, frag int) [][]byte {
	var recs [][]byte
	for len(msg) > 0 {
		n := len(msg)
		if frag > 0 && frag < n {
			n = frag
		}
		rec := append([]byte{22, 3, 1, byte(n >> 8), byte(n)}, msg[:n]...)
		recs = append(recs, rec)
		msg = msg[n:]
	}
	return recs
}

func isGrease(v int) bool { return v&0x0f0f == 0x0a0a && v>>8 == v&0xff }

// refJA3: the JA3 definition applied to the structured hello, independent of the code under test.
func refJA3(h hello) (string, string, bool) {
	j := func(xs []int) string {
		var p []string
		for _, x := range xs {
			p = append(p, fmt.Sprint(x))
		}
		return strings.Join(p, "-")
	}
	var cs, es, curves, points []int
	sni := ""
	for _, c := range h.ciphers {
		if !isGrease(c) {
			cs = append(cs, c)
		}
	}
	for _, e := range h.exts {
		if !isGrease(e.typ) {
			es = append(es, e.typ)
		}
		switch e.typ {
		case 10:
			if len(e.body) < 2 || len(e.body) != 2+int(e.body[0])<<8+int(e.body[1]) || len(e.body)%2 == 1 {
				return "", "", false
			}
			curves = nil
			for i := 2; i+1 < len(e.body); i += 2 {
				if v := int(e.body[i])<<8 | int(e.body[i+1]); !isGrease(v) {
					curves = append(curves, v)
				}
			}
		case 11:
			if len(e.body) < 1 || len(e.body) != 1+int(e.body[0]) {
				return "", "", false
			}
			points = nil
			for _, b := range e.body[1:] {
				points = append(points, int(b))
			}
		case 0:
			b := e.body
			if len(b) < 2 || len(b)-2 != int(b[0])<<8|int(b[1]) {
				return "", "", false
			}
			b = b[2:]
			for len(b) > 0 {
				if len(b) < 3 {
					return "", "", false
				}
				t, n := b[0], int(b[1])<<8|int(b[2])
				b = b[3:]
				if len(b) < n {
					return "", "", false
				}
				if t == 0 {
					sni = string(b[:n])
					if strings.HasSuffix(sni, ".") {
						return "", "", false
					}
					break
				}
				b = b[n:]
			}
		}
	}
	return fmt.Sprintf("%d,%s,%s,%s,%s", h.version, j(cs), j(es), j(curves), j(points)), sni, true
}

func md5hex(s string) string {
	d := md5.Sum([]byte(s))
	return hex.EncodeToString(d[:])
}

var errStop = errors.New("verif: hello recorded")

// runJA3 feeds the hello to the real tls.Server; GetConfigForClient records what the stack computed.
func runJA3(h hello, frag int) {
	line := "ja3 " + h.line()
	verdict := "ok"
	viol := func(sig, d string) {
		if verdict == "ok" {
			verdict = "viol:" + sig + ":" + d
		}
	}
	var got, digest, sni string
	called := false
	var segs [][]byte
	for _, r := range records(h.encode(), frag) {
		segs = append(segs, r)
	}
	c := &segConn{segs: segs, laddr: &net.TCPAddr{IP: net.IPv4(127, 0, 0, 1), Port: 443}, raddr: &net.TCPAddr{IP: net.IPv4(10, 0, 0, 9), Port: 5555}}
	srv := tls.Server(c, &tls.Config{
		GetConfigForClient: func(ch *tls.ClientHelloInfo) (*tls.Config, error) {
			called = true
			got, digest, sni = ch.JA3(), ch.JA3Digest(), ch.ServerName
			return nil, errStop
		},
	})
	func() {
		defer func() {
			if r := recover(); r != nil {
				viol("tls-stack-panic", fmt.Sprint(r))
			}
		}()
		srv.Handshake()
	}()
	want, wantSNI, wf := refJA3(h)
	impl := "rejected"
	if called {
		impl = got + " sni=" + hx([]byte(sni))
		if !wf {
			viol("malformed-hello-accepted", got)
		} else {
			if got != want {
				viol("ja3-string-differs", fmt.Sprintf("stack %q specification %q", got, want))
			}
			if digest != md5hex(want) {
				viol("ja3-digest-differs", fmt.Sprintf("stack %s md5(spec) %s", digest, md5hex(want)))
			}
			if sni != wantSNI {
				viol("server-name-differs", fmt.Sprintf("stack %q sent %q", sni, wantSNI))
			}
		}
	} else if wf {
		viol("wellformed-hello-rejected", want)
	}
	emit(line, impl, verdict, called && len(h.exts) > 0)
}

// runHTTPS sends the hello to the real https service and reads digest and server name off the event.
func runHTTPS(h hello) {
	line := "@https " + h.line()
	verdict := "ok"
	fn, _ := services.Get("https")
	rec := newRecChannel()
	s := fn(services.WithChannel(rec))
	var segs [][]byte
	for _, r := range records(h.encode(), 0) {
		segs = append(segs, r)
	}
	c := &segConn{segs: segs, laddr: &net.TCPAddr{IP: net.IPv4(127, 0, 0, 1), Port: 443}, raddr: &net.TCPAddr{IP: net.IPv4(10, 0, 0, 9), Port: 5555}}
	done := make(chan struct{})
	go func() {
		defer func() { recover(); close(done) }()
		s.Handle(context.Background(), c)
	}()
	select {
	case <-done:
	case <-time.After(60 * time.Second):
		emit(line, "hang", "viol:https-handle-does-not-return:", true)
		return
	}
	want, wantSNI, wf := refJA3(h)
	impl := "no-event"
	for _, e := range rec.From(0) {
		m := evMap(e)
		if d, ok := m["https.ja3-digest"]; ok {
			impl = fmt.Sprintf("digest=%v sni=%v", d, m["https.server-name"])
			if wf && (fmt.Sprint(d) != md5hex(want) || fmt.Sprint(m["https.server-name"]) != wantSNI) {
				verdict = fmt.Sprintf("viol:https-event-digest-differs:event %v/%v, specification %s (%s)/%s", d, m["https.server-name"], md5hex(want), want, wantSNI)
			}
			break
		}
	}
	if impl == "no-event" && wf {
		verdict = "viol:https-no-event-with-digest:" + want
	}
	emit(line, impl, verdict, true)
}

func groupsBody(gs []int) []byte {
	b := be16(2 * len(gs))
	for _, g := range gs {
		b = append(b, be16(g)...)
	}
	return b
}

func sniBody(name string) []byte {
	b := be16(len(name) + 3)
	b = append(b, 0)
	b = append(b, be16(len(name))...)
	return append(b, name...)
}

func pointsBody(ps []int) []byte {
	b := []byte{byte(len(ps))}
	for _, p := range ps {
		b = append(b, byte(p))
	}
	return b
}

func genC13(tier string, seed uint64) {
	r := NewRng(seed)
	grease := []int{0x0a0a, 0x1a1a, 0x2a2a, 0xaaaa, 0xfafa}
	nearGrease := []int{0x0a1a, 0x1a2a, 0x0a0b, 0x0b0a, 0x0a00, 0x000a, 0xa0a0, 6698, 0x3a3b}
	suites := []int{0xc02b, 0xc02f, 0x009c, 0x002f, 0x0035, 0x000a, 0x00ff, 0x5600, 0x1301, 0xcca9}
	plainExts := []int{23, 65000, 21, 43, 51, 45, 27, 17513, 28, 34}
	versions := []int{0x0300, 0x0301, 0x0302, 0x0303}
	// structured boundary cases
	base := func() hello {
		return hello{version: 0x0303, ciphers: []int{0xc02b, 0xc02f}, exts: []ext{{0, sniBody("example.com")}, {23, nil}, {10, groupsBody([]int{29, 23, 24})}, {11, pointsBody([]int{0})}}}
	}
	runJA3(base(), 0)
	for _, v := range versions {
		h := base()
		h.version = v
		runJA3(h, 0)
	}
	for _, g := range append(append([]int{}, grease...), nearGrease...) {
		h := base()
		h.ciphers = append([]int{g}, h.ciphers...)
		runJA3(h, 0)
		h = base()
		h.exts = append([]ext{{g, []byte{0}}}, h.exts...)
		runJA3(h, 0)
		h = base()
		h.exts[2] = ext{10, groupsBody([]int{g, 29, 23})}
		runJA3(h, 0)
		h = base()
		h.ciphers = append(h.ciphers, g)
		h.exts = append(h.exts, ext{g, nil})
		h.exts[2] = ext{10, groupsBody([]int{29, g})}
		runJA3(h, 0)
	}
	for _, name := range []string{"", "a", "Example.COM", "UPPER.example", "xn--nxasmq6b.test", "a.b.c.d.e.f", strings.Repeat("x", 200), "trailing.dot."} {
		h := base()
		h.exts[0] = ext{0, sniBody(name)}
		runJA3(h, 0)
	}
	{ // no extensions at all; no SNI; empty lists; duplicated unknown and GREASE extension types; empty bodies
		runJA3(hello{version: 0x0301, ciphers: []int{0x002f}}, 0)
		runJA3(hello{version: 0x0303, ciphers: []int{0x002f}, exts: []ext{{10, groupsBody(nil)}, {11, pointsBody(nil)}}}, 0)
		runJA3(hello{version: 0x0303, ciphers: []int{0x002f}, exts: []ext{{23, nil}, {23, nil}, {0x0a0a, nil}, {65000, []byte{1, 2}}, {0x0a0a, []byte{0}}, {65000, nil}}}, 0)
		runJA3(hello{version: 0x0303, exts: []ext{{11, pointsBody([]int{0, 1, 2})}}}, 0)
		// malformed bodies of the extensions the fingerprint reads
		runJA3(hello{version: 0x0303, ciphers: []int{0x002f}, exts: []ext{{10, []byte{0, 3, 0, 29, 0}}}}, 0)
		runJA3(hello{version: 0x0303, ciphers: []int{0x002f}, exts: []ext{{10, []byte{0}}}}, 0)
		runJA3(hello{version: 0x0303, ciphers: []int{0x002f}, exts: []ext{{11, []byte{2, 0}}}}, 0)
		runJA3(hello{version: 0x0303, ciphers: []int{0x002f}, exts: []ext{{0, []byte{0, 5, 0, 0, 9, 'a', 'b'}}}}, 0)
		runJA3(hello{version: 0x0303, ciphers: []int{0x002f}, exts: []ext{{0, append(be16(8), 1, 0, 1, 'z', 0, 0, 1, 'h')}}}, 0)
	}
	// record-layer fragmentation of the hello
	for _, frag := range []int{1, 2, 5, 37, 64, 100} {
		runJA3(base(), frag)
	}
	// structural generator
	n := 600
	if tier == "thorough" {
		n = 12000
	}
	for i := 0; i < n; i++ {
		var h hello
		h.version = versions[r.Intn(len(versions))]
		for k := 1 + r.Intn(40); k > 0; k-- {
			switch r.Intn(6) {
			case 0:
				h.ciphers = append(h.ciphers, grease[r.Intn(len(grease))])
			case 1:
				h.ciphers = append(h.ciphers, nearGrease[r.Intn(len(nearGrease))])
			default:
				h.ciphers = append(h.ciphers, suites[r.Intn(len(suites))])
			}
		}
		ne := r.Intn(21)
		posG, posP, posS := -1, -1, -1
		if ne > 0 {
			if r.Intn(4) != 0 {
				posG = r.Intn(ne)
			}
			if r.Intn(4) != 0 {
				posP = r.Intn(ne)
			}
			if r.Intn(3) != 0 {
				posS = r.Intn(ne)
			}
		}
		for k := 0; k < ne; k++ {
			switch {
			case k == posG:
				var gs []int
				for j := r.Intn(8); j > 0; j-- {
					if r.Intn(4) == 0 {
						gs = append(gs, grease[r.Intn(len(grease))])
					} else {
						gs = append(gs, r.Pick([]int{29, 23, 24, 25, 256, 257, 0x0a1a, 6698}))
					}
				}
				h.exts = append(h.exts, ext{10, groupsBody(gs)})
			case k == posP:
				var ps []int
				for j := r.Intn(4); j > 0; j-- {
					ps = append(ps, r.Intn(3))
				}
				h.exts = append(h.exts, ext{11, pointsBody(ps)})
			case k == posS:
				h.exts = append(h.exts, ext{0, sniBody(r.Pick2("host.example", "Other-Host.Example.ORG"))})
			default:
				t := plainExts[r.Intn(len(plainExts))]
				switch r.Intn(5) {
				case 0:
					t = grease[r.Intn(len(grease))]
				case 1:
					t = nearGrease[r.Intn(len(nearGrease))]
				}
				var body []byte
				if r.Bool() {
					body = r.Bytes(r.Intn(6))
				}
				h.exts = append(h.exts, ext{t, body})
			}
		}
		frag := 0
		if r.Intn(5) == 0 {
			frag = 1 + r.Intn(90)
		}
		runJA3(h, frag)
	}
	// through the https service: the event carries digest and server name (RSA key generation per new name: a few only)
	hs := []hello{base()}
	h := base()
	h.version = 0x0300
	hs = append(hs, h)
	h = base()
	h.ciphers = append([]int{0x1a1a}, h.ciphers...)
	h.exts[2] = ext{10, groupsBody([]int{0x2a2a, 29})}
	hs = append(hs, h)
	h = base()
	h.exts[0] = ext{0, sniBody("Example.COM")}
	hs = append(hs, h)
	for _, x := range hs {
		runHTTPS(x)
	}
}
