package main

import (
	"crypto/rand"
	"crypto/rsa"
	"crypto/sha256"
	"crypto/x509"
	"encoding/pem"
	"fmt"
	"io/ioutil"
	"os"
	"os/exec"
	"path/filepath"
	"strings"
	"time"

	"github.com/honeytrap/honeytrap/listener/agent"
	"github.com/honeytrap/honeytrap/server"
	"github.com/honeytrap/honeytrap/services"
	_ "github.com/honeytrap/honeytrap/services/smtp"
	"github.com/honeytrap/honeytrap/storage"
)

// C18: server.WithToken and the load-or-generate storage functions against HT.Id.
//
// idtok <absent|hex of the token file's content> <n>   : n starts on a data dir prepared in that state
//                                                        -> "kept stable" | "new stable" (| "... unstable")
// "@idkv <prep> <services;services;...>"                : restart history of child processes on one data dir (oracle only)

func init() {
	register(&Stream{Name: "c18id", Gen: genC18, Replay: func(l string) {
		f := strings.Fields(l)
		if len(f) == 3 && f[0] == "idtok" {
			var n int
			fmt.Sscan(f[2], &n)
			runIDTok(f[1], n)
		} else if len(f) == 3 && f[0] == "@idkv" {
			runIDKV(f[1], strings.Split(f[2], ";"))
		}
	}})
	register(&Stream{Name: "c18child", Gen: func(string, uint64) { idChild() }, Replay: func(string) {}})
}

func wfTokenRef(s string) bool {
	if len(s) != 20 {
		return false
	}
	for _, c := range s {
		if !((c >= '0' && c <= '9') || (c >= 'a' && c <= 'v')) {
			return false
		}
	}
	return true
}

func runIDTok(state string, n int) {
	line := fmt.Sprintf("idtok %s %d", state, n)
	verdict := "ok"
	viol := func(s string) {
		if verdict == "ok" {
			verdict = "viol:" + s
		}
	}
	dir, _ := ioutil.TempDir("", "htverif-c18-")
	defer os.RemoveAll(dir)
	content := ""
	if strings.HasPrefix(state, "tmp") {
		// killed between creating the temporary file of the atomic write and the rename
		ioutil.WriteFile(filepath.Join(dir, "token.tmp"), unhx(state[3:]), 0600)
	} else if state != "absent" {
		content = string(unhx(state))
		ioutil.WriteFile(filepath.Join(dir, "token"), []byte(content), 0600)
	}
	var toks []string
	for i := 0; i < n; i++ {
		dd, err := server.WithDataDir(dir)
		if err != nil {
			emit(line, "datadir-error", "ok", false)
			return
		}
		hc, err := server.New(dd, server.WithToken())
		if err != nil {
			viol("start-fails:" + err.Error())
			emit(line, "start-error", verdict, true)
			return
		}
		toks = append(toks, hc.VerifToken())
	}
	first := toks[0]
	out := "new"
	if state != "absent" && !strings.HasPrefix(state, "tmp") && first == content {
		out = "kept"
	}
	if !wfTokenRef(first) {
		viol(fmt.Sprintf("token-not-wellformed:start on a token file holding %q came up with token %q", content, first))
	}
	stable := true
	for _, t := range toks {
		if t != first {
			stable = false
		}
	}
	if stable {
		out += " stable"
	} else {
		out += " unstable"
		viol(fmt.Sprintf("token-changes-across-restarts:%v", toks))
	}
	if b, err := ioutil.ReadFile(filepath.Join(dir, "token")); err != nil || string(b) != first {
		viol(fmt.Sprintf("token-file-differs-from-token:file %q token %q", b, first))
	}
	emit(line, out, verdict, state != "absent")
}

// ---- key-value identities: child processes on one data directory ----

var kvItems = []struct{ ns, key string }{
	{"ssh", "private-key"}, {"ftp", "pemkey"}, {"ftp", "pemcert"}, {"smtp", "pemkey"}, {"smtp", "pemcert"},
	{"ldap", "pemkey"}, {"ldap", "pemcert"}, {"agent", "key"},
}

// idChild: args via env: HT_ID_DIR, HT_ID_PREP (none|keyonly), HT_ID_SVCS (comma list). Prints "<ns>.<key>=<sha|->" lines.
func idChild() {
	dir := os.Getenv("HT_ID_DIR")
	storage.SetDataDir(dir)
	if os.Getenv("HT_ID_PREP") == "keyonly" {
		// the state a kill between the two Sets of a first start leaves: key stored, certificate not
		for _, ns := range []string{"ftp", "smtp", "ldap"} {
			k, _ := rsa.GenerateKey(rand.Reader, 2048)
			pemkey := pem.EncodeToMemory(&pem.Block{Type: "RSA PRIVATE KEY", Bytes: x509.MarshalPKCS1PrivateKey(k)})
			s, _ := storage.Namespace(ns)
			s.Set("pemkey", pemkey)
		}
	}
	saved := os.Stdout
	os.Stdout = devNull
	for _, name := range strings.Split(os.Getenv("HT_ID_SVCS"), ",") {
		switch name {
		case "":
		case "agent":
			if st, err := agent.Storage(); err == nil {
				st.KeyPair()
			}
		default:
			if fn, ok := services.Get(name); ok {
				func() {
					defer func() { recover() }()
					fn()
				}()
			}
		}
	}
	os.Stdout = saved
	for _, it := range kvItems {
		s, _ := storage.Namespace(it.ns)
		v, err := s.Get(it.key)
		h := "-"
		if err == nil {
			h = fmt.Sprintf("%x", sha256.Sum256(v))[:16]
			if it.key == "pemkey" || it.key == "pemcert" || it.key == "private-key" {
				if len(v) == 0 {
					h = "empty"
				}
			}
		}
		fmt.Printf("ID %s.%s=%s\n", it.ns, it.key, h)
	}
	os.Exit(0)
}

func runChild(dir, prep, svcs string, killAfter time.Duration) (map[string]string, bool) {
	cmd := exec.Command(os.Args[0], "c18child")
	cmd.Env = append(os.Environ(), "HT_ID_DIR="+dir, "HT_ID_PREP="+prep, "HT_ID_SVCS="+svcs)
	var sb strings.Builder
	cmd.Stdout = &sb
	if err := cmd.Start(); err != nil {
		return nil, false
	}
	done := make(chan error, 1)
	go func() { done <- cmd.Wait() }()
	if killAfter > 0 {
		select {
		case <-done:
		case <-time.After(killAfter):
			cmd.Process.Kill()
			<-done
			return nil, false
		}
	} else {
		select {
		case <-done:
		case <-time.After(120 * time.Second):
			cmd.Process.Kill()
			return nil, false
		}
	}
	m := map[string]string{}
	for _, l := range strings.Split(sb.String(), "\n") {
		if strings.HasPrefix(l, "ID ") {
			kv := strings.SplitN(l[3:], "=", 2)
			m[kv[0]] = kv[1]
		}
	}
	return m, len(m) == len(kvItems)
}

// runIDKV: a restart history: prep = none | keyonly | kill<ms> (first start killed after that many ms);
// histories = service sets of the successive (complete) starts.
func runIDKV(prep string, history []string) {
	line := "@idkv " + prep + " " + strings.Join(history, ";")
	verdict := "ok"
	viol := func(s string) {
		if verdict == "ok" {
			verdict = "viol:" + s
		}
	}
	dir, _ := ioutil.TempDir("", "htverif-c18kv-")
	defer os.RemoveAll(dir)
	if strings.HasPrefix(prep, "kill") {
		var ms int
		fmt.Sscan(prep[4:], &ms)
		runChild(dir, "none", "ssh-simulator,ftp,smtp,ldap,agent", time.Duration(ms)*time.Millisecond)
		os.Remove(filepath.Join(dir, "badger.db", "LOCK"))
	}
	first := map[string]string{}
	var outs []string
	for i, svcs := range history {
		p := "none"
		if i == 0 && prep == "keyonly" {
			p = "keyonly"
		}
		m, ok := runChild(dir, p, svcs, 0)
		if !ok {
			viol(fmt.Sprintf("start-fails:start %d with services %s did not come up", i+1, svcs))
			break
		}
		// every identity item of an enabled service must exist after a complete start
		need := map[string][]string{"ssh-simulator": {"ssh.private-key"}, "ftp": {"ftp.pemkey", "ftp.pemcert"}, "smtp": {"smtp.pemkey", "smtp.pemcert"},
			"ldap": {"ldap.pemkey", "ldap.pemcert"}, "agent": {"agent.key"}}
		for _, sv := range strings.Split(svcs, ",") {
			for _, k := range need[sv] {
				if m[k] == "-" || m[k] == "" {
					viol(fmt.Sprintf("identity-item-missing:%s absent after start %d with services %s", k, i+1, svcs))
				}
			}
		}
		n := 0
		for k, v := range m {
			if v == "-" {
				continue
			}
			n++
			if v == "empty" {
				viol("identity-item-empty:" + k)
			}
			if f, seen := first[k]; seen {
				if f != v {
					viol(fmt.Sprintf("identity-changes-across-restarts:%s was %s, is %s after start %d", k, f, v, i+1))
				}
			} else {
				first[k] = v
			}
		}
		outs = append(outs, fmt.Sprint(n))
	}
	emit(line, "items="+strings.Join(outs, ","), verdict, len(history) > 1)
}

func genC18(tier string, seed uint64) {
	r := NewRng(seed)
	valid := "9m4e2mr0ui3e8a215n4g"
	// every on-disk state of the token file a kill can leave (absent, empty, each proper prefix), the complete
	// file, and other contents; restart histories of length 2..5
	runIDTok("absent", 3)
	for k := 0; k <= len(valid); k++ {
		st := "-"
		if k > 0 {
			st = hx([]byte(valid[:k]))
		}
		runIDTok(st, 2+k%4)
	}
	for _, k := range []int{0, 1, 7, 19, 20} {
		runIDTok("tmp"+hx([]byte(valid[:k])), 3)
	}
	for _, s := range []string{valid + "x", "9m4e2mr0ui3e8a215n4w", "9M4E2MR0UI3E8A215N4G", valid + "\n", "\x00\x00", "vvvvvvvvvvvvvvvvvvvv", "00000000000000000000", strings.Repeat("a", 19) + " ", strings.Repeat("z", 20)} {
		runIDTok(hx([]byte(s)), 3)
	}
	for i := 0; i < 30; i++ { // tokens as the generator produces them (incl. ones containing 'v')
		dir, _ := ioutil.TempDir("", "htverif-c18g-")
		dd, _ := server.WithDataDir(dir)
		if hc, err := server.New(dd, server.WithToken()); err == nil {
			runIDTok(hx([]byte(hc.VerifToken())), 2+r.Intn(4))
		}
		os.RemoveAll(dir)
	}
	// key-value identities over restart histories with varying service sets; key-only crash state; killed first starts
	all := "ssh-simulator,ftp,smtp,ldap,agent"
	runIDKV("none", []string{all, all, all})
	runIDKV("none", []string{"ssh-simulator", "ftp,ldap", all, "smtp", all})
	runIDKV("keyonly", []string{all, all})
	if tier == "thorough" {
		for _, ms := range []int{20, 60, 120, 250, 400, 700, 1000, 1500} {
			runIDKV(fmt.Sprintf("kill%d", ms), []string{all, all})
		}
		runIDKV("keyonly", []string{"ftp", "smtp,ldap", all, all})
	} else {
		runIDKV(fmt.Sprintf("kill%d", 100+r.Intn(400)), []string{all, all})
	}
}
