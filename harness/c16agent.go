package main

import (
	"bytes"
	"encoding/binary"
	"fmt"
	"io"
	"net"
	"strings"
	"sync"
	"time"

	"github.com/honeytrap/honeytrap/listener"
	"github.com/honeytrap/honeytrap/listener/agent"
)

// C16: the agent session loop and codec (listener/agent) against HT.Agent.
//
// case line: agent <msg> ...   msg = h:<lip hex>:<lport>:<rip hex>:<rport> | d:<..>:<payload hex> | u:<..>:<hex> | e:<..> | p
// output:    per surfaced connection in creation order "<bytes received hex>/<ended 0|1>"

func init() {
	register(&Stream{Name: "c16agent", Gen: genC16, Replay: func(l string) {
		f := strings.Fields(l)
		if len(f) >= 1 && f[0] == "agent" {
			runAgent(f[1:])
		}
		if len(f) >= 2 && f[0] == "agentcodec" {
			runCodec(f[1:])
		}
	}})
}

type surfaced struct {
	conn  net.Conn
	mu    sync.Mutex
	data  []byte
	ended bool
	isUDP bool
}

func mkAddr(ipHex, port string, udp bool) net.Addr {
	var p int
	fmt.Sscan(port, &p)
	if udp {
		return &net.UDPAddr{IP: net.IP(unhx(ipHex)), Port: p}
	}
	return &net.TCPAddr{IP: net.IP(unhx(ipHex)), Port: p}
}

func sendFrame(c net.Conn, typ byte, body []byte) {
	hdr := []byte{typ, 0, 0}
	binary.LittleEndian.PutUint16(hdr[1:], uint16(len(body)))
	c.Write(append(hdr, body...))
}

func runAgent(msgs []string) {
	line := "agent " + strings.Join(msgs, " ")
	verdict := "ok"
	viol := func(s string) {
		if verdict == "ok" {
			verdict = "viol:" + s
		}
	}
	l, _ := agent.New()
	srv, cli := tcpPair()
	sessDone := make(chan struct{})
	go func() { defer close(sessDone); agent.VerifServe(l, srv) }()
	// datagram services answer at once in some sessions and late (after the whole message sequence) in the others
	// (decided by the case line alone so that a replay runs the same way: sessions with an even number of messages)
	lateUDP := len(msgs)%2 == 0
	release := make(chan struct{})
	// the services' side: accept every surfaced connection, read it to its end; answer the first bytes once
	var mu sync.Mutex
	var conns []*surfaced
	go func() {
		for {
			c, err := l.(listener.Listener).Accept()
			if err != nil || c == nil {
				return
			}
			s := &surfaced{conn: c}
			if _, ok := c.(*listener.DummyUDPConn); ok {
				s.isUDP = true
			}
			mu.Lock()
			conns = append(conns, s)
			mu.Unlock()
			go func() {
				buf := make([]byte, 700)
				replied := false
				for {
					n, err := c.Read(buf)
					s.mu.Lock()
					s.data = append(s.data, buf[:n]...)
					s.mu.Unlock()
					if n > 0 && !replied {
						// the service's reply: a stream chosen by the first byte it received, written in the chunk
						// sizes of replyPlan (one Write each)
						replied = true
						if s.isUDP && lateUDP {
							// a datagram service that answers late: after every message of the session has arrived
							s.mu.Lock()
							s.ended = true
							s.mu.Unlock()
							select {
							case <-release:
							case <-time.After(3 * time.Second):
							}
						}
						stream := replyStream(buf[0], s.isUDP)
						// written from one scratch buffer that is overwritten as soon as Write has returned (as a
						// service with a single output buffer does): what was written must already be safe
						scratch := make([]byte, len(stream))
						for _, k := range replyPlan(buf[0], s.isUDP) {
							copy(scratch, stream[:k])
							c.Write(scratch[:k])
							for i := 0; i < k; i++ {
								scratch[i] = 0xee
							}
							stream = stream[k:]
						}
					}
					if s.isUDP || err != nil {
						s.mu.Lock()
						s.ended = true
						s.mu.Unlock()
						return
					}
				}
			}()
		}
	}()
	// the agent's side: handshake, then the messages; frames coming back are collected
	hs, _ := agent.Handshake{ProtocolVersion: 1, Version: "v", ShortCommitID: "s", CommitID: "c", Token: "tok"}.MarshalBinary()
	sendFrame(cli, byte(agent.TypeHandshake), hs)
	type back struct {
		typ  int
		l, r string
		p    []byte
	}
	var bmu sync.Mutex
	var backs []back
	go func() {
		for {
			h := make([]byte, 3)
			if _, err := io.ReadFull(cli, h); err != nil {
				return
			}
			body := make([]byte, binary.LittleEndian.Uint16(h[1:]))
			if _, err := io.ReadFull(cli, body); err != nil {
				return
			}
			b := back{typ: int(h[0])}
			switch int(h[0]) {
			case agent.TypeReadWriteTCP:
				var m agent.ReadWriteTCP
				m.UnmarshalBinary(body)
				b.l, b.r, b.p = fmt.Sprint(m.Laddr), fmt.Sprint(m.Raddr), m.Payload
			case agent.TypeReadWriteUDP:
				var m agent.ReadWriteUDP
				m.UnmarshalBinary(body)
				b.l, b.r, b.p = fmt.Sprint(m.Laddr), fmt.Sprint(m.Raddr), m.Payload
			case agent.TypeEOF:
				var m agent.EOF
				m.UnmarshalBinary(body)
				b.l, b.r = fmt.Sprint(m.Laddr), fmt.Sprint(m.Raddr)
			}
			bmu.Lock()
			backs = append(backs, b)
			bmu.Unlock()
		}
	}()
	// reference: what each connection must receive (first live connection with the message's addresses)
	type ref struct {
		l, r  string
		data  []byte
		ended bool
		udp   bool
	}
	var refs []*ref
	find := func(la, ra string) *ref {
		for _, x := range refs {
			if !x.ended && x.l == la && x.r == ra {
				return x
			}
		}
		return nil
	}
	for _, m := range msgs {
		p := strings.Split(m, ":")
		switch p[0] {
		case "p":
			sendFrame(cli, byte(agent.TypePing), nil)
		case "h":
			la, ra := mkAddr(p[1], p[2], false), mkAddr(p[3], p[4], false)
			b, _ := agent.Hello{Laddr: la, Raddr: ra}.MarshalBinary()
			sendFrame(cli, byte(agent.TypeHello), b)
			refs = append(refs, &ref{l: la.String(), r: ra.String()})
		case "d":
			la, ra := mkAddr(p[1], p[2], false), mkAddr(p[3], p[4], false)
			b, _ := agent.ReadWriteTCP{Laddr: la, Raddr: ra, Payload: unhx(p[5])}.MarshalBinary()
			sendFrame(cli, byte(agent.TypeReadWriteTCP), b)
			if x := find(la.String(), ra.String()); x != nil {
				x.data = append(x.data, unhx(p[5])...)
			}
		case "u":
			la, ra := mkAddr(p[1], p[2], true), mkAddr(p[3], p[4], true)
			b, _ := agent.ReadWriteUDP{Laddr: la, Raddr: ra, Payload: unhx(p[5])}.MarshalBinary()
			sendFrame(cli, byte(agent.TypeReadWriteUDP), b)
			refs = append(refs, &ref{l: la.String(), r: ra.String(), data: unhx(p[5]), ended: true, udp: true})
		case "e":
			la, ra := mkAddr(p[1], p[2], false), mkAddr(p[3], p[4], false)
			b, _ := agent.EOF{Laddr: la, Raddr: ra}.MarshalBinary()
			sendFrame(cli, byte(agent.TypeEOF), b)
			if x := find(la.String(), ra.String()); x != nil {
				x.ended = true
			}
		}
	}
	// quiescence: every connection surfaced, has its bytes and (if ended) saw its end
	settled := func() bool {
		mu.Lock()
		defer mu.Unlock()
		if len(conns) != len(refs) {
			return false
		}
		for i, s := range conns {
			s.mu.Lock()
			ok := len(s.data) >= len(refs[i].data) && (s.ended || !refs[i].ended)
			s.mu.Unlock()
			if !ok {
				return false
			}
		}
		return true
	}
	for dl := time.Now().Add(3 * time.Second); !settled() && time.Now().Before(dl); {
		time.Sleep(2 * time.Millisecond)
	}
	close(release)
	repliesIn := func() bool {
		bmu.Lock()
		defer bmu.Unlock()
		want, got := 0, 0
		for _, rf := range refs {
			if len(rf.data) > 0 {
				want += len(replyStream(rf.data[0], rf.udp))
			}
		}
		for _, b := range backs {
			if b.typ == agent.TypeReadWriteTCP || b.typ == agent.TypeReadWriteUDP {
				got += len(b.p)
			}
		}
		return got >= want
	}
	for dl := time.Now().Add(3 * time.Second); !(settled() && repliesIn()) && time.Now().Before(dl); {
		time.Sleep(2 * time.Millisecond)
	}
	time.Sleep(5 * time.Millisecond)
	var outs []string
	mu.Lock()
	snapshot := append([]*surfaced(nil), conns...)
	mu.Unlock()
	if len(snapshot) != len(refs) {
		viol(fmt.Sprintf("connections-surfaced-wrong:%d surfaced, %d announced", len(snapshot), len(refs)))
	}
	for i, s := range snapshot {
		s.mu.Lock()
		outs = append(outs, hx(s.data)+"/"+b01(s.ended))
		if i < len(refs) {
			rf := refs[i]
			if s.conn.LocalAddr().String() != rf.l || s.conn.RemoteAddr().String() != rf.r {
				viol(fmt.Sprintf("surfaced-with-wrong-addresses:%v>%v, announced %s>%s", s.conn.RemoteAddr(), s.conn.LocalAddr(), rf.r, rf.l))
			}
			if string(s.data) != string(rf.data) {
				viol(fmt.Sprintf("bytes-misdelivered:connection %d (%s>%s) received %x, its data messages carried %x", i, rf.r, rf.l, s.data, rf.data))
			}
			if s.ended != rf.ended {
				viol(fmt.Sprintf("end-of-stream-wrong:connection %d ended=%v, expected %v", i, s.ended, rf.ended))
			}
		}
		s.mu.Unlock()
	}
	// what the services wrote came back tagged with the connection's addresses, in order: the payloads tagged with
	// an address pair, concatenated, are the reply streams of the connections with that pair
	bmu.Lock()
	for i, rf := range refs {
		if len(rf.data) == 0 {
			continue
		}
		var got, want []byte
		for _, b := range backs {
			if (b.typ == agent.TypeReadWriteTCP || b.typ == agent.TypeReadWriteUDP) && b.l == rf.l && b.r == rf.r {
				got = append(got, b.p...)
			}
		}
		shared := 0
		for _, o := range refs {
			if o.l == rf.l && o.r == rf.r && len(o.data) > 0 {
				shared++
				want = append(want, replyStream(o.data[0], o.udp)...)
			}
		}
		if shared == 1 && !bytes.Equal(got, want) {
			at := 0
			for at < len(got) && at < len(want) && got[at] == want[at] {
				at++
			}
			viol(fmt.Sprintf("write-not-relayed-in-order:connection %d %s>%s: the service wrote %d bytes in writes of %v, the agent received %d bytes tagged with its addresses (first difference at %d)", i, rf.r, rf.l, len(want), replyPlan(rf.data[0], rf.udp), len(got), at))
		} else if shared > 1 && len(got) != len(want) {
			viol(fmt.Sprintf("write-not-relayed-with-its-addresses:connections %s>%s wrote %d bytes, %d came back", rf.r, rf.l, len(want), len(got)))
		}
	}
	for _, b := range backs {
		if b.typ == agent.TypeReadWriteTCP || b.typ == agent.TypeReadWriteUDP {
			known := false
			for _, rf := range refs {
				if rf.l == b.l && rf.r == b.r {
					known = true
				}
			}
			if !known {
				viol("write-tagged-with-unknown-addresses:" + b.l + " " + b.r)
			}
		}
	}
	bmu.Unlock()
	// the agent disconnects: every connection still open ends, the session finishes
	cli.Close()
	select {
	case <-sessDone:
	case <-time.After(3 * time.Second):
		viol("session-does-not-end-after-agent-disconnect:")
	}
	for dl := time.Now().Add(2 * time.Second); time.Now().Before(dl); time.Sleep(2 * time.Millisecond) {
		all := true
		for _, s := range snapshot {
			s.mu.Lock()
			if !s.ended {
				all = false
			}
			s.mu.Unlock()
		}
		if all {
			break
		}
	}
	for i, s := range snapshot {
		s.mu.Lock()
		if !s.ended {
			viol(fmt.Sprintf("connection-survives-agent-disconnect:connection %d", i))
		}
		s.mu.Unlock()
	}
	emit(line, strings.Join(outs, " "), verdict, len(refs) > 0)
}

// replyPlan: the sizes of the Writes a stub service answers with, chosen by the first byte it received
func replyPlan(first byte, udp bool) []int {
	if udp {
		return []int{3}
	}
	plans := [][]int{{3}, {1, 2, 3}, {700, 1}, {0, 5}, {4000, 4076, 4096}, {32768}, {65000}, {65400, 7}, {65535}, {65536, 1}, {70000}, {200000, 3}, {3}, {16}, {1, 1, 1, 1}, {9000}}
	return plans[int(first)%len(plans)]
}

func replyStream(first byte, udp bool) []byte {
	n := 0
	for _, k := range replyPlan(first, udp) {
		n += k
	}
	b := make([]byte, n)
	for i := range b {
		b[i] = byte(i*7) + first
	}
	return b
}

// genHandoffModel: the two-goroutine hand-off model's own line protocol (every schedule up to length 8 over r/w): the
// harness side is the reference semantics of a Go channel of the given capacity written out here independently of the
// Lean definitions (oracle: capacity 1 always delivers).
func genHandoffModel(cap string) {
	kept := cap == "1"
	for n := 0; n <= 8; n++ {
		for mask := 0; mask < 1<<uint(n); mask++ {
			sch := make([]byte, n)
			for i := range sch {
				if mask>>uint(i)&1 == 1 {
					sch[i] = 'r'
				} else {
					sch[i] = 'w'
				}
			}
			full := string(sch) + "wwrrr"
			// reference: buffer flag, token flag, reader pc (0 check, 1 checked, 2 parked, 3 returned), got, writer pc
			buf, tok, rp, got, wp := false, false, 0, false, 0
			take := func() { got, buf, rp = buf, false, 3 }
			for _, c := range full {
				if c == 'r' {
					switch rp {
					case 0:
						if buf {
							take()
						} else {
							rp = 1
						}
					case 1, 2:
						if tok {
							tok = false
							take()
						} else {
							rp = 2
						}
					}
				} else {
					switch wp {
					case 0:
						buf, wp = true, 1
					case 1:
						if kept {
							tok = true
						} else if rp == 2 {
							take()
						}
						wp = 2
					}
				}
			}
			res := "running"
			switch {
			case rp == 3 && got:
				res = "delivered"
			case rp == 3:
				res = "returned-empty"
			case rp == 2:
				res = "blocked"
			}
			verdict := "ok"
			if kept && res != "delivered" {
				verdict = "viol:pushed-bytes-not-delivered:schedule " + string(sch)
			}
			line := "handoff " + cap + " " + string(sch)
			if n == 0 {
				line = "handoff " + cap + " -"
			}
			emit(line, res, verdict, true)
		}
	}
}

func genC16(tier string, seed uint64) {
	r := NewRng(seed)
	genC16Codec(tier, NewRng(seed+16))
	genAgentWrite(tier, NewRng(seed+17))
	genHandoffModel("1")
	genHandoffModel("0")
	type ap struct{ lip, lport, rip, rport string }
	pairs := []ap{
		{"0a000001", "22", "01020304", "40000"},
		{"0a000001", "23", "01020304", "40000"},
		{"0a000001", "22", "01020304", "40001"},
		{"0a000001", "22", "05060708", "40000"},
		{"0a000001", "222", "01020304", "40000"},
		{"0a000001", "22", "15020304", "40000"}, // 10.0.0.1:22 + 21.2.3.4 vs 10.0.0.1:222 + 1.2.3.4
		{hx(net.ParseIP("2001:db8::1")), "443", hx(net.ParseIP("2001:db8::2")), "50000"},
		{"0a000001", "0", "01020304", "65535"},
	}
	a := func(p ap) string { return p.lip + ":" + p.lport + ":" + p.rip + ":" + p.rport }
	pay := func(n int) string {
		if n == 0 {
			return "-"
		}
		return hx(r.Bytes(n))
	}
	// one connection: hello, 0..20 data messages of 0..4000 bytes, eof
	for _, nd := range []int{0, 1, 2, 5, 20} {
		for _, sz := range []int{0, 1, 700, 701, 4000} {
			ms := []string{"h:" + a(pairs[0])}
			for i := 0; i < nd; i++ {
				ms = append(ms, "d:"+a(pairs[0])+":"+pay(sz))
			}
			ms = append(ms, "e:"+a(pairs[0]))
			runAgent(ms)
		}
	}
	// no eof (ended by the agent's disconnect), data for unknown connections, data after eof, duplicate hello, ping, udp
	runAgent([]string{"h:" + a(pairs[0]), "d:" + a(pairs[0]) + ":" + pay(3)})
	runAgent([]string{"d:" + a(pairs[0]) + ":" + pay(3), "h:" + a(pairs[0]), "d:" + a(pairs[1]) + ":" + pay(3), "e:" + a(pairs[1]), "d:" + a(pairs[0]) + ":" + pay(2), "e:" + a(pairs[0]), "d:" + a(pairs[0]) + ":" + pay(2), "e:" + a(pairs[0])})
	runAgent([]string{"h:" + a(pairs[0]), "h:" + a(pairs[0]), "d:" + a(pairs[0]) + ":" + pay(4), "e:" + a(pairs[0]), "d:" + a(pairs[0]) + ":" + pay(5), "e:" + a(pairs[0])})
	runAgent([]string{"p", "u:" + a(pairs[0]) + ":" + pay(10), "p", "h:" + a(pairs[0]), "u:" + a(pairs[0]) + ":" + pay(1), "d:" + a(pairs[0]) + ":" + pay(3), "e:" + a(pairs[0])})
	// datagrams for different address pairs in one session (each reply must come back tagged with its own pair,
	// also when the service answers after later datagrams have arrived): run twice (prompt and late answers)
	for rep := 0; rep < 2; rep++ {
		tail := []string{"p"}[:rep] // one more message flips the session between prompt and late answers
		runAgent(append([]string{"u:" + a(pairs[0]) + ":" + pay(5), "u:" + a(pairs[1]) + ":" + pay(6)}, tail...))
		runAgent(append([]string{"u:" + a(pairs[0]) + ":" + pay(5), "u:" + a(pairs[3]) + ":" + pay(6), "u:" + a(pairs[6]) + ":" + pay(7)}, tail...))
		runAgent(append([]string{"h:" + a(pairs[0]), "u:" + a(pairs[2]) + ":" + pay(5), "d:" + a(pairs[0]) + ":" + pay(4), "u:" + a(pairs[4]) + ":" + pay(300), "e:" + a(pairs[0])}, tail...))
		runAgent(append([]string{"u:" + a(pairs[7]) + ":" + pay(1), "u:" + a(pairs[0]) + ":" + pay(1), "u:" + a(pairs[7]) + ":" + pay(2)}, tail...))
	}
	// bursts of small data messages on a connection that stays open: every byte must reach the service without a
	// further message (the reader is signalled per message; a signal lost between its check and its wait would hold
	// the bytes back)
	nb := 150
	if tier == "thorough" {
		nb = 1500
	}
	for i := 0; i < nb; i++ {
		ms := []string{"h:" + a(pairs[i%3])}
		for k := 0; k < 12; k++ {
			// an empty (or tiny) message wakes the reader, which finds nothing and goes back to wait just as the
			// next message arrives
			ms = append(ms, "d:"+a(pairs[i%3])+":"+pay([]int{0, 0, 1}[r.Intn(3)]), "d:"+a(pairs[i%3])+":"+pay([]int{1, 699, 700, 701, 1400, 4000}[r.Intn(6)]))
		}
		runAgent(ms)
	}
	// all interleavings of two connections' sequences (hello, d, d, eof each), for several address pairs
	seqOf := func(p ap, tag byte) []string {
		return []string{"h:" + a(p), "d:" + a(p) + ":" + hx([]byte{tag, 1}), "d:" + a(p) + ":" + hx([]byte{tag, 2, 2}), "e:" + a(p)}
	}
	var scheds [][]int
	var rec func(x, y int, cur []int)
	rec = func(x, y int, cur []int) {
		if x == 0 && y == 0 {
			scheds = append(scheds, append([]int(nil), cur...))
			return
		}
		if x > 0 {
			rec(x-1, y, append(cur, 0))
		}
		if y > 0 {
			rec(x, y-1, append(cur, 1))
		}
	}
	rec(4, 4, nil)
	for pi, other := range []int{1, 2, 3, 4, 5, 6} {
		for si, sc := range scheds {
			if tier != "thorough" && (si+pi)%4 != 0 {
				continue
			}
			s0, s1 := seqOf(pairs[0], 0xa0), seqOf(pairs[other], 0xb0)
			if other == 5 { // the look-alike pair: 10.0.0.1:222 + 1.2.3.4 vs 10.0.0.1:22 + 21.2.3.4
				s0 = seqOf(pairs[4], 0xa0)
			}
			var ms []string
			i0, i1 := 0, 0
			for _, w := range sc {
				if w == 0 {
					ms = append(ms, s0[i0])
					i0++
				} else {
					ms = append(ms, s1[i1])
					i1++
				}
			}
			runAgent(ms)
		}
	}
	// 1..4 connections, random message counts/sizes and interleavings; two or more left open at disconnect
	n := 60
	if tier == "thorough" {
		n = 1500
	}
	for i := 0; i < n; i++ {
		k := 1 + r.Intn(4)
		var seqs [][]string
		for j := 0; j < k; j++ {
			p := pairs[(i+j*3)%len(pairs)]
			s := []string{"h:" + a(p)}
			for d := r.Intn(21); d > 0; d-- {
				s = append(s, "d:"+a(p)+":"+pay(r.Pick([]int{0, 1, 2, 50, 699, 700, 701, 1400, 4000})))
			}
			if r.Intn(3) != 0 {
				s = append(s, "e:"+a(p))
			}
			seqs = append(seqs, s)
		}
		var ms []string
		for {
			var live []int
			for j, s := range seqs {
				if len(s) > 0 {
					live = append(live, j)
				}
			}
			if len(live) == 0 {
				break
			}
			j := live[r.Intn(len(live))]
			ms = append(ms, seqs[j][0])
			seqs[j] = seqs[j][1:]
			if r.Intn(15) == 0 {
				ms = append(ms, "p")
			}
			if r.Intn(12) == 0 {
				ms = append(ms, "u:"+a(pairs[r.Intn(len(pairs))])+":"+pay(1+r.Intn(40)))
			}
		}
		runAgent(ms)
	}
}
