package main

import (
	"bufio"
	"bytes"
	"fmt"
	"io"
	"io/ioutil"
	"net"
	"net/http"
	"os"
	"sort"
	"strings"
	"sync"
	"time"

	"github.com/honeytrap/honeytrap/config"
	"github.com/honeytrap/honeytrap/director"
	_ "github.com/honeytrap/honeytrap/director/forward"
	"github.com/honeytrap/honeytrap/listener"
	"github.com/honeytrap/honeytrap/server"
)

// C15: proxy services relay requests and replies unchanged to the configured backend.
//
// relay http <segment hex> ...   : one client connection to the http proxy delivering these segments; the backend
//                                  fixture answers every request -> the requests the backend received, as
//                                  "method,target,body" (hex) | "-"          (compared with HT.Relay.httpProxy)
// relay copy <segment hex> ...   : the same through the copy proxy -> the bytes the backend received (hex)
// relay dial <host hex> <port>   : the forward director configured with that host, dialling for a connection
//                                  accepted on that local port -> "<host hex>:<port hex>" of the address it dialled
// @relay ...                     : the same with content outside the model (chunked bodies, odd headers) or datagrams
//
// Oracle (implementation only): backend received = client sent (method, target, header multimap, body / raw bytes),
// client received = backend sent (status, headers, body / raw bytes) in order; one event per request naming the
// client; the decoy listeners saw nothing.

// ---- fixtures ----

type recReq struct {
	method, target, host string
	header               map[string][]string
	body                 []byte
}

type httpBackend struct {
	ln      net.Listener
	mu      sync.Mutex
	reqs    []recReq
	conns   int
	replies [][]byte // raw replies to send, by request index on the connection (cycled)
	splits  []int    // cut points applied to each reply
}

func (b *httpBackend) port() int { return b.ln.Addr().(*net.TCPAddr).Port }

func newHTTPBackend() *httpBackend {
	ln, err := net.Listen("tcp", "127.0.0.1:0")
	if err != nil {
		panic(err)
	}
	b := &httpBackend{ln: ln}
	go func() {
		for {
			c, err := ln.Accept()
			if err != nil {
				return
			}
			b.mu.Lock()
			b.conns++
			b.mu.Unlock()
			go b.serve(c)
		}
	}()
	return b
}

func (b *httpBackend) serve(c net.Conn) {
	defer c.Close()
	br := bufio.NewReader(c)
	for i := 0; ; i++ {
		c.SetReadDeadline(time.Now().Add(5 * time.Second))
		req, err := http.ReadRequest(br)
		if err != nil {
			return
		}
		body, _ := ioutil.ReadAll(req.Body)
		b.mu.Lock()
		b.reqs = append(b.reqs, recReq{req.Method, req.RequestURI, req.Host, req.Header, body})
		var reply []byte
		if len(b.replies) > 0 {
			reply = b.replies[i%len(b.replies)]
		} else {
			reply = []byte("HTTP/1.1 200 OK\r\nContent-Length: 2\r\n\r\nok")
		}
		splits := b.splits
		b.mu.Unlock()
		if req.Method == "HEAD" {
			// a reply to HEAD carries the headers only
			if i := bytes.Index(reply, []byte("\r\n\r\n")); i >= 0 {
				reply = reply[:i+4]
			}
		}
		for _, seg := range cutAt(reply, append([]int(nil), splits...)) {
			c.Write(seg)
			if len(splits) > 0 {
				time.Sleep(300 * time.Microsecond)
			}
		}
	}
}

func (b *httpBackend) reset(replies [][]byte, splits []int) {
	b.mu.Lock()
	b.reqs, b.conns, b.replies, b.splits = nil, 0, replies, splits
	b.mu.Unlock()
}

func (b *httpBackend) got() ([]recReq, int) {
	b.mu.Lock()
	defer b.mu.Unlock()
	return append([]recReq(nil), b.reqs...), b.conns
}

// tcpBackend records what it receives and, once the client's end of stream arrives, sends its reply and closes
type tcpBackend struct {
	ln    net.Listener
	mu    sync.Mutex
	recv  [][]byte
	reply []byte
	greet []byte // written as soon as a connection is accepted (a backend that speaks first)
	conns int
}

func (b *tcpBackend) port() int { return b.ln.Addr().(*net.TCPAddr).Port }

func newTCPBackend() *tcpBackend {
	ln, err := net.Listen("tcp", "127.0.0.1:0")
	if err != nil {
		panic(err)
	}
	b := &tcpBackend{ln: ln}
	go func() {
		for {
			c, err := ln.Accept()
			if err != nil {
				return
			}
			b.mu.Lock()
			b.conns++
			idx := len(b.recv)
			b.recv = append(b.recv, nil)
			reply, greet := b.reply, b.greet
			b.mu.Unlock()
			go func() {
				defer c.Close()
				c.SetDeadline(time.Now().Add(5 * time.Second))
				if len(greet) > 0 {
					c.Write(greet)
				}
				data, _ := ioutil.ReadAll(c)
				b.mu.Lock()
				b.recv[idx] = data
				b.mu.Unlock()
				c.Write(reply)
			}()
		}
	}()
	return b
}

func (b *tcpBackend) reset(reply []byte) {
	b.mu.Lock()
	b.recv, b.conns, b.reply, b.greet = nil, 0, reply, nil
	b.mu.Unlock()
}

func (b *tcpBackend) got() ([][]byte, int) {
	b.mu.Lock()
	defer b.mu.Unlock()
	return append([][]byte(nil), b.recv...), b.conns
}

type udpBackend struct {
	pc    *net.UDPConn
	mu    sync.Mutex
	recv  [][]byte
	reply func([]byte) []byte
}

func (b *udpBackend) port() int { return b.pc.LocalAddr().(*net.UDPAddr).Port }

func newUDPBackend() *udpBackend {
	pc, err := net.ListenUDP("udp", &net.UDPAddr{IP: net.IPv4(127, 0, 0, 1)})
	if err != nil {
		panic(err)
	}
	b := &udpBackend{pc: pc}
	go func() {
		buf := make([]byte, 65536)
		for {
			n, from, err := pc.ReadFromUDP(buf)
			if err != nil {
				return
			}
			d := append([]byte(nil), buf[:n]...)
			b.mu.Lock()
			b.recv = append(b.recv, d)
			f := b.reply
			b.mu.Unlock()
			if f != nil {
				pc.WriteToUDP(f(d), from)
			}
		}
	}()
	return b
}

func (b *udpBackend) reset(f func([]byte) []byte) {
	b.mu.Lock()
	b.recv, b.reply = nil, f
	b.mu.Unlock()
}

func (b *udpBackend) got() [][]byte {
	b.mu.Lock()
	defer b.mu.Unlock()
	return append([][]byte(nil), b.recv...)
}

// ---- lab ----

type proxyLab struct {
	hc             *server.Honeytrap
	cap            *evCap
	hb             *httpBackend
	tb, tb1, tb2   *tcpBackend // tb: configured with its port; tb1/tb2: reached through the port-less director
	ub, db         *udpBackend
	decoyT         *tcpBackend
	decoyU         *udpBackend
	next           int
	portHP, portCP int
}

var plab *proxyLab

func proxyLabGet() *proxyLab {
	if plab != nil {
		return plab
	}
	os.Stdout = devNull
	l := &proxyLab{hb: newHTTPBackend(), tb: newTCPBackend(), tb1: newTCPBackend(), tb2: newTCPBackend(), ub: newUDPBackend(), db: newUDPBackend(),
		decoyT: newTCPBackend(), decoyU: newUDPBackend(), next: 30000, portHP: 8080, portCP: 9000}
	var b strings.Builder
	b.WriteString("[listener]\ntype = \"verif-rec\"\n")
	fmt.Fprintf(&b, "[director.fh]\ntype = \"forward\"\nhost = \"127.0.0.1:%d\"\n", l.hb.port())
	fmt.Fprintf(&b, "[director.ft]\ntype = \"forward\"\nhost = \"127.0.0.1:%d\"\n", l.tb.port())
	fmt.Fprintf(&b, "[director.fu]\ntype = \"forward\"\nhost = \"127.0.0.1:%d\"\n", l.ub.port())
	fmt.Fprintf(&b, "[director.fd]\ntype = \"forward\"\nhost = \"127.0.0.1:%d\"\n", l.db.port())
	b.WriteString("[director.fn]\ntype = \"forward\"\nhost = \"127.0.0.1\"\n")
	svc := func(name, typ, dir, port string) {
		fmt.Fprintf(&b, "[service.%s]\ntype = %s\ndirector = %s\n[[port]]\nport = %s\nservices = [%s]\n", name, q(typ), q(dir), q(port), q(name))
	}
	svc("hp", "http-proxy", "fh", fmt.Sprintf("tcp/%d", l.portHP))
	svc("cp", "copy", "ft", fmt.Sprintf("tcp/%d", l.portCP))
	svc("cpu", "copy", "fu", fmt.Sprintf("udp/%d", l.portCP))
	svc("dp", "dns-proxy", "fd", "udp/5353")
	svc("cn1", "copy", "fn", fmt.Sprintf("tcp/%d", l.tb1.port()))
	svc("cn2", "copy", "fn", fmt.Sprintf("tcp/%d", l.tb2.port()))
	b.WriteString("[channel.cap]\ntype = \"verif-evs\"\nname = \"cap\"\n[[filter]]\nchannel = [\"cap\"]\n")
	lastEvCap = nil
	hc, _, err := runServer(b.String())
	if err != nil || lastEvCap == nil {
		panic(fmt.Sprint("proxy lab: ", err))
	}
	l.hc, l.cap = hc, lastEvCap
	plab = l
	return l
}

func (l *proxyLab) client() *net.TCPAddr {
	l.next++
	return &net.TCPAddr{IP: net.IPv4(10, 9, byte(l.next/250%250), byte(1+l.next%250)), Port: 1024 + l.next%60000}
}

// stream: client segments to the service listening on port; returns what the client received
func (l *proxyLab) stream(port int, segs [][]byte, lockstep bool) ([]byte, *net.TCPAddr, bool) {
	ca := l.client()
	c := newScriptConn(segs, lockstep, &net.TCPAddr{IP: net.IPv4(10, 0, 0, 1), Port: port}, ca)
	done := make(chan struct{})
	go func() { defer close(done); l.hc.VerifHandle(c) }()
	ok := true
	select {
	case <-done:
	case <-time.After(10 * time.Second):
		ok = false
		c.Close()
	}
	return c.output(), ca, ok
}

func (l *proxyLab) decoysQuiet() bool {
	_, n := l.decoyT.got()
	return n == 0 && len(l.decoyU.got()) == 0
}

func (l *proxyLab) eventsRemote(addr string) int {
	n := 0
	for _, e := range l.cap.snapshot() {
		if e.Get("remote-addr") == addr {
			n++
		}
	}
	return n
}

// ---- http ----

type hreq struct {
	method, target string
	headers        [][2]string
	body           []byte
	chunked        bool
}

func (r hreq) wire(rg *Rng) []byte {
	var b bytes.Buffer
	fmt.Fprintf(&b, "%s %s HTTP/1.1\r\n", r.method, r.target)
	for _, h := range r.headers {
		fmt.Fprintf(&b, "%s: %s\r\n", h[0], h[1])
	}
	if r.chunked {
		b.WriteString("Transfer-Encoding: chunked\r\n\r\n")
		pos := 0
		for pos < len(r.body) {
			k := rg.Range(1, len(r.body)-pos)
			fmt.Fprintf(&b, "%x\r\n", k)
			b.Write(r.body[pos : pos+k])
			b.WriteString("\r\n")
			pos += k
		}
		b.WriteString("0\r\n\r\n")
	} else {
		if len(r.body) > 0 || r.method == "POST" || r.method == "PUT" {
			fmt.Fprintf(&b, "Content-Length: %d\r\n", len(r.body))
		}
		b.WriteString("\r\n")
		b.Write(r.body)
	}
	return b.Bytes()
}

func headerMap(hs [][2]string) map[string][]string {
	m := map[string][]string{}
	for _, h := range hs {
		k := http.CanonicalHeaderKey(h[0])
		if k == "Host" {
			continue
		}
		m[k] = append(m[k], h[1])
	}
	return m
}

func sameHeaders(sent map[string][]string, got http.Header, ignore ...string) string {
	ig := map[string]bool{}
	for _, k := range ignore {
		ig[k] = true
	}
	var diffs []string
	for k, v := range sent {
		if ig[k] {
			continue
		}
		if strings.Join(got[k], "\x00") != strings.Join(v, "\x00") {
			diffs = append(diffs, fmt.Sprintf("%s sent %q got %q", k, v, got[k]))
		}
	}
	for k, v := range got {
		if ig[k] {
			continue
		}
		if _, ok := sent[k]; !ok {
			diffs = append(diffs, fmt.Sprintf("%s added %q", k, v))
		}
	}
	sort.Strings(diffs)
	return strings.Join(diffs, "; ")
}

func genHReq(r *Rng, modelled bool) hreq {
	q := hreq{method: []string{"GET", "POST", "PUT", "DELETE", "OPTIONS", "HEAD", "PATCH"}[r.Intn(7)], target: "/" + word(r, 10)}
	if r.Intn(3) == 0 {
		q.target += "?a=" + word(r, 5) + "&b=2"
	}
	q.headers = append(q.headers, [2]string{"Host", strings.Map(func(c rune) rune {
		if c == '/' || c == '_' || c == '.' {
			return 'x'
		}
		return c
	}, word(r, 8)) + ".example"})
	names := []string{"User-Agent", "Accept", "X-Forwarded-For", "Cookie", "Authorization", "X-Custom", "Accept-Encoding", "Referer", "x-lower", "X-Custom"}
	// hop-by-hop fields are relayed like any other ("unchanged")
	switch r.Intn(6) {
	case 0:
		q.headers = append(q.headers, [2]string{"Connection", "keep-alive"}, [2]string{"Keep-Alive", "timeout=5, max=100"})
	case 1:
		q.headers = append(q.headers, [2]string{"Connection", "X-Trace"}, [2]string{"X-Trace", word(r, 8)})
	case 2:
		q.headers = append(q.headers, [2]string{"Proxy-Authorization", "Basic " + word(r, 12)}, [2]string{"TE", "trailers"})
	case 3:
		q.headers = append(q.headers, [2]string{"Upgrade", "h2c"}, [2]string{"Proxy-Connection", "keep-alive"})
	}
	used := map[string]bool{}
	for k := r.Intn(11); k > 0; k-- {
		v := strings.TrimSpace(strings.ReplaceAll(printableLine(r, 24), ":", ";"))
		if v == "" {
			v = "v"
		}
		n := names[r.Intn(len(names))]
		// singleton fields (User-Agent, Referer, Authorization) are sent once: net/http itself keeps only the first
		// User-Agent when writing a request; list-valued and extension fields may repeat
		if ck := http.CanonicalHeaderKey(n); ck == "User-Agent" || ck == "Referer" || ck == "Authorization" {
			if used[ck] {
				continue
			}
			used[ck] = true
		}
		q.headers = append(q.headers, [2]string{n, v})
	}
	if q.method == "POST" || q.method == "PUT" || q.method == "PATCH" {
		q.body = r.Bytes([]int{0, 1, 17, 300, 4096, 20000, 65536}[r.Intn(7)])
		if !modelled && r.Intn(3) == 0 && len(q.body) > 0 {
			q.chunked = true
		}
	}
	return q
}

func genReply(r *Rng, i int) ([]byte, int, []byte) {
	body := r.Bytes([]int{0, 2, 100, 5000, 65536}[r.Intn(5)])
	status := []int{200, 404, 302, 500, 201}[r.Intn(5)]
	return []byte(fmt.Sprintf("HTTP/1.1 %d %s\r\nX-Backend: b%d\r\nConnection: keep-alive\r\nKeep-Alive: timeout=5, max=%d\r\nSet-Cookie: s=%d\r\nSet-Cookie: t=%d\r\nContent-Length: %d\r\n\r\n%s", status, http.StatusText(status), i, 100+i, i, i+1, len(body), body)), status, body
}

func genReplyWith(r *Rng, i, status, n int) ([]byte, int, []byte) {
	body := r.Bytes(n)
	return []byte(fmt.Sprintf("HTTP/1.1 %d %s\r\nX-Backend: b%d\r\nConnection: keep-alive\r\nKeep-Alive: timeout=5, max=%d\r\nSet-Cookie: s=%d\r\nSet-Cookie: t=%d\r\nContent-Length: %d\r\n\r\n%s", status, http.StatusText(status), i, 100+i, i, i+1, len(body), body)), status, body
}

func runRelayHTTP(prefix string, reqs []hreq, wire []byte, segs [][]byte, lockstep bool, replies [][]byte, rstat []int, rbody [][]byte, splits []int) {
	l := proxyLabGet()
	line := segLine(prefix+" http", "", segs)
	line = strings.Replace(line, " http  ", " http ", 1)
	verdict := "ok"
	viol := func(sig, d string) {
		if verdict == "ok" {
			verdict = "viol:" + sig + ":" + d
		}
	}
	l.hb.reset(replies, splits)
	l.decoyT.reset(nil)
	l.decoyU.reset(nil)
	out, ca, ok := l.stream(l.portHP, segs, lockstep)
	if !ok {
		viol("proxy-does-not-return", "http-proxy: handle() still running 10 s after the client's end of stream")
	}
	got, conns := l.hb.got()
	var parts []string
	for _, g := range got {
		parts = append(parts, strings.Join([]string{hx([]byte(g.method)), hx([]byte(g.target)), hx(g.body)}, ","))
	}
	res := joinEv(parts)
	if reqs != nil {
		if len(got) != len(reqs) {
			viol("request-not-relayed", fmt.Sprintf("client sent %d requests, the backend received %d", len(reqs), len(got)))
		}
		for i := 0; i < len(got) && i < len(reqs); i++ {
			s, g := reqs[i], got[i]
			host := ""
			for _, h := range s.headers {
				if strings.EqualFold(h[0], "Host") {
					host = h[1]
				}
			}
			if g.method != s.method || g.target != s.target || g.host != host || !bytes.Equal(g.body, s.body) {
				viol("request-changed", fmt.Sprintf("request %d: sent %s %s host %s body %d bytes; backend got %s %s host %s body %d bytes", i, s.method, s.target, host, len(s.body), g.method, g.target, g.host, len(g.body)))
			}
			if d := sameHeaders(headerMap(s.headers), http.Header(g.header), "Content-Length", "Transfer-Encoding"); d != "" {
				viol("request-headers-changed", fmt.Sprintf("request %d (%s %s): %s", i, s.method, s.target, d))
			}
		}
		if conns > 1 {
			viol("extra-backend-connection", fmt.Sprintf("%d connections to the backend for one client connection", conns))
		}
		// replies, in order, unchanged
		br := bufio.NewReader(bytes.NewReader(out))
		for i := range got {
			if i >= len(reqs) {
				break
			}
			resp, err := http.ReadResponse(br, &http.Request{Method: reqs[i].method})
			if err != nil {
				viol("reply-not-relayed", fmt.Sprintf("reply %d of %d does not reach the client: %v", i, len(got), err))
				break
			}
			body, _ := ioutil.ReadAll(resp.Body)
			k := i % len(rstat)
			wantBody := rbody[k]
			if reqs[i].method == "HEAD" {
				wantBody = nil
			}
			if resp.StatusCode != rstat[k] || !bytes.Equal(body, wantBody) || resp.Header.Get("X-Backend") != fmt.Sprintf("b%d", k) || len(resp.Header["Set-Cookie"]) != 2 ||
				resp.Header.Get("Keep-Alive") != fmt.Sprintf("timeout=5, max=%d", 100+k) || resp.Header.Get("Connection") != "keep-alive" {
				viol("reply-changed", fmt.Sprintf("reply %d: backend sent status %d, %d body bytes; client got status %d, %d body bytes, headers %v", i, rstat[k], len(wantBody), resp.StatusCode, len(body), resp.Header))
			}
			// the length the backend declared (also in the reply to HEAD, which has no body to count)
			if cl := resp.Header.Get("Content-Length"); cl != fmt.Sprint(len(rbody[k])) {
				viol("reply-changed", fmt.Sprintf("reply %d to %s: backend declared Content-Length %d, the client got %q", i, reqs[i].method, len(rbody[k]), cl))
			}
		}
		if n := l.eventsRemote(ca.String()); n != len(reqs) {
			viol("request-not-recorded", fmt.Sprintf("%d requests, %d events naming the client %s", len(reqs), n, ca))
		}
	}
	if !l.decoysQuiet() {
		viol("connection-to-other-address", "a decoy listener was connected to")
	}
	emit(line, res, verdict, len(got) > 0)
}

// ---- copy ----

func runRelayCopy(prefix string, segs [][]byte, reply []byte) {
	l := proxyLabGet()
	line := segLine(prefix+" copy", "", segs)
	line = strings.Replace(line, " copy  ", " copy ", 1)
	verdict := "ok"
	viol := func(sig, d string) {
		if verdict == "ok" {
			verdict = "viol:" + sig + ":" + d
		}
	}
	l.tb.reset(reply)
	l.decoyT.reset(nil)
	out, _, ok := l.stream(l.portCP, segs, false)
	if !ok {
		viol("proxy-does-not-return", "copy: handle() still running 10 s after the client's end of stream")
	}
	recv, conns := l.tb.got()
	var data []byte
	if len(recv) > 0 {
		data = recv[0]
	}
	if !bytes.Equal(data, flat(segs)) {
		viol("stream-changed", fmt.Sprintf("client sent %d bytes, the backend received %d (%d connections)", len(flat(segs)), len(data), conns))
	}
	if !bytes.Equal(out, reply) {
		viol("reply-changed", fmt.Sprintf("backend sent %d bytes, the client received %d", len(reply), len(out)))
	}
	if conns != 1 {
		viol("extra-backend-connection", fmt.Sprintf("%d connections to the backend for one client connection", conns))
	}
	if !l.decoysQuiet() {
		viol("connection-to-other-address", "a decoy listener was connected to")
	}
	emit(line, hx(data), verdict, len(data) > 0)
}

// runRelayGreet: a backend that speaks first (as smtp, ftp or mysql servers do) and a client that waits for the greeting
// before it sends anything.  "@relay greet <greeting hex> <data hex> <reply hex>"
func runRelayGreet(greet, data, reply []byte) {
	l := proxyLabGet()
	line := fmt.Sprintf("@relay greet %s %s %s", hx(greet), hx(data), hx(reply))
	verdict := "ok"
	viol := func(sig, d string) {
		if verdict == "ok" {
			verdict = "viol:" + sig + ":" + d
		}
	}
	l.tb.reset(reply)
	l.tb.mu.Lock()
	l.tb.greet = greet
	l.tb.mu.Unlock()
	srv, cli := tcpPair()
	pc := &portConn{Conn: srv, laddr: &net.TCPAddr{IP: net.IPv4(127, 0, 0, 1), Port: l.portCP}}
	done := make(chan struct{})
	go func() { defer close(done); defer func() { recover() }(); l.hc.VerifHandle(pc) }()
	cli.SetDeadline(time.Now().Add(4 * time.Second))
	got := make([]byte, len(greet))
	if _, err := io.ReadFull(cli, got); err != nil || !bytes.Equal(got, greet) {
		viol("reply-not-relayed", fmt.Sprintf("the backend's greeting of %d bytes does not reach a client that waits for it before sending (%v)", len(greet), err))
	}
	cli.SetDeadline(time.Now().Add(5 * time.Second))
	cli.Write(data)
	if tc, ok := cli.(*net.TCPConn); ok {
		tc.CloseWrite()
	}
	rest, _ := ioutil.ReadAll(cli)
	cli.Close()
	select {
	case <-done:
	case <-time.After(8 * time.Second):
		viol("proxy-does-not-return", "copy: handle() still running 8 s after the client closed")
	}
	recv, _ := l.tb.got()
	var back []byte
	if len(recv) > 0 {
		back = recv[0]
	}
	if !bytes.Equal(back, data) {
		viol("stream-changed", fmt.Sprintf("client sent %d bytes, the backend received %d", len(data), len(back)))
	}
	if verdict == "ok" && !bytes.Equal(rest, reply) {
		viol("reply-changed", fmt.Sprintf("backend sent %d bytes after the client's data, the client received %d", len(reply), len(rest)))
	}
	emit(line, hx(back), verdict, true)
}

// port-less director: two services on two ports share it; each connection must reach the backend on its own port
func runRelayPorts(order []int, payloads [][]byte) {
	l := proxyLabGet()
	line := fmt.Sprintf("@relay ports %v", order)
	verdict := "ok"
	l.tb1.reset([]byte("one"))
	l.tb2.reset([]byte("two"))
	want := map[int][][]byte{}
	for i, k := range order {
		b := []*tcpBackend{l.tb1, l.tb2}[k]
		out, _, _ := l.stream(b.port(), [][]byte{payloads[i]}, false)
		want[k] = append(want[k], payloads[i])
		if string(out) != []string{"one", "two"}[k] && verdict == "ok" {
			verdict = fmt.Sprintf("viol:connection-to-other-address:connection %d accepted on port %d got the reply %q (backend %d answers %q)", i, b.port(), out, k, []string{"one", "two"}[k])
		}
	}
	for k, b := range []*tcpBackend{l.tb1, l.tb2} {
		recv, _ := b.got()
		if len(recv) != len(want[k]) && verdict == "ok" {
			verdict = fmt.Sprintf("viol:connection-to-other-address:backend on port %d received %d connections, %d were meant for it", b.port(), len(recv), len(want[k]))
		}
	}
	emit(strings.ReplaceAll(line, " ", "_"), "done", verdict, true)
}

// ---- datagrams ----

func runRelayUDP(svcPort int, which string, payload []byte) { runRelayUDPSized(svcPort, which, payload, 0) }

// replyLen > 0: the backend's reply is padded to that many bytes (replies larger than the query, up to 64 KiB)
func runRelayUDPSized(svcPort int, which string, payload []byte, replyLen int) {
	l := proxyLabGet()
	line := "@relay " + which + " " + hx(payload)
	if replyLen > 0 {
		line += fmt.Sprintf(" %d", replyLen)
	}
	verdict := "ok"
	viol := func(sig, d string) {
		if verdict == "ok" {
			verdict = "viol:" + sig + ":" + d
		}
	}
	be := l.ub
	if which == "dns" {
		be = l.db
	}
	rep := func(d []byte) []byte {
		r := append([]byte(nil), d...)
		if len(r) > 2 {
			r[2] |= 0x80
		}
		r = append(r, 1, 2, 3)
		for i := 0; len(r) < replyLen; i++ {
			r = append(r, byte(i*11))
		}
		return r
	}
	be.reset(rep)
	l.decoyU.reset(nil)
	l.next++
	from := &net.UDPAddr{IP: net.IPv4(10, 9, 9, byte(1+l.next%250)), Port: 2000 + l.next%50000}
	var mu sync.Mutex
	var out []byte
	c := &listener.DummyUDPConn{Buffer: append([]byte(nil), payload...), Laddr: &net.UDPAddr{IP: net.IPv4(10, 0, 0, 1), Port: svcPort}, Raddr: from,
		Fn: func(b []byte, a *net.UDPAddr) (int, error) { mu.Lock(); out = append(out, b...); mu.Unlock(); return len(b), nil }}
	done := make(chan struct{})
	go func() { defer close(done); l.hc.VerifHandle(c) }()
	select {
	case <-done:
	case <-time.After(5 * time.Second):
		viol("proxy-does-not-return", which+": handle() still running 5 s after a datagram the backend answered")
	}
	recv := be.got()
	if len(recv) != 1 || !bytes.Equal(recv[0], payload) {
		viol("datagram-changed", fmt.Sprintf("client sent one datagram of %d bytes; the backend received %d datagram(s)", len(payload), len(recv)))
	}
	mu.Lock()
	got := append([]byte(nil), out...)
	mu.Unlock()
	if verdict == "ok" && !bytes.Equal(got, rep(payload)) {
		viol("reply-changed", fmt.Sprintf("backend answered %d bytes, the client received %d", len(rep(payload)), len(got)))
	}
	if len(l.decoyU.got()) != 0 {
		viol("connection-to-other-address", "the decoy socket received a datagram")
	}
	emit(line, hx(got), verdict, len(payload) > 0)
}

// ---- the director alone (model-compared) ----

type fakeLocal struct {
	net.Conn
	addr net.Addr
}

func (f fakeLocal) LocalAddr() net.Addr { return f.addr }

func runRelayDial(host string, port int) {
	line := fmt.Sprintf("relay dial %s %d", hx([]byte(host)), port)
	d, err := newForwardDirector(host)
	if err != nil {
		emit(line, "no-director", "ok", false)
		return
	}
	conn, err := d.Dial(fakeLocal{addr: &net.TCPAddr{IP: net.IPv4(10, 0, 0, 1), Port: port}})
	target := ""
	if err == nil {
		target = conn.RemoteAddr().String()
		conn.Close()
	} else if oe, ok := err.(*net.OpError); ok && oe.Addr != nil {
		target = oe.Addr.String()
	} else {
		// "dial tcp: lookup ..." and the like: take the address from the message
		f := strings.Fields(err.Error())
		if len(f) >= 3 {
			target = strings.TrimSuffix(f[2], ":")
		}
	}
	h, p, _ := net.SplitHostPort(target)
	emit(line, hx([]byte(h))+":"+hx([]byte(p)), "ok", true)
}

func init() {
	register(&Stream{Name: "c15proxy", Gen: genC15, Replay: func(l string) {
		f := strings.Fields(l)
		if len(f) >= 3 && f[0] == "relay" && f[1] == "copy" {
			var segs [][]byte
			for _, h := range f[2:] {
				segs = append(segs, unhx(h))
			}
			runRelayCopy("relay", segs, []byte("reply"))
		} else if len(f) >= 3 && f[0] == "relay" && f[1] == "http" {
			var segs [][]byte
			for _, h := range f[2:] {
				segs = append(segs, unhx(h))
			}
			runRelayHTTP("relay", nil, flat(segs), segs, false, nil, nil, nil, nil)
		} else if len(f) >= 7 && f[0] == "@relay" && f[1] == "ssh" {
			up := strings.Split(f[2], ":")
			parts := strings.Split(strings.Join(f[3:], " "), " | ")
			if len(up) == 2 && len(parts) >= 3 {
				var reqs []sshReqRec
				for _, rq := range strings.Fields(parts[0]) {
					tp := strings.SplitN(rq, ":", 2)
					if len(tp) == 2 {
						reqs = append(reqs, sshReqRec{tp[0], unhx(tp[1])})
					}
				}
				var wrong []string
				if len(parts) >= 4 {
					for _, w := range strings.Split(strings.TrimSpace(parts[3]), ",") {
						wrong = append(wrong, string(unhx(w)))
					}
				}
				runRelaySSHTries(string(unhx(up[0])), wrong, string(unhx(up[1])), reqs, unhx(strings.TrimSpace(parts[1])), unhx(strings.TrimSpace(parts[2])))
			}
		} else if len(f) == 4 && f[0] == "relay" && f[1] == "dial" {
			var p int
			fmt.Sscan(f[3], &p)
			runRelayDial(string(unhx(f[2])), p)
		}
	}})
}

func genC15(tier string, seed uint64) {
	r := NewRng(seed ^ 0xc15)
	nDial, maxCuts := 5, 60
	if tier == "thorough" {
		nDial, maxCuts = 30, 400
	}
	// http: request sequences; one piece (pipelined), one write per request (pipelined and lock-step), single cuts,
	// multi-cut; replies split at arbitrary points
	for d := 0; d < nDial; d++ {
		modelled := d%2 == 0
		var reqs []hreq
		var per [][]byte
		for k := r.Range(1, 4); k > 0; k-- {
			q := genHReq(r, modelled)
			if d%3 == 0 && len(q.body) > 4096 {
				q.body = q.body[:4096]
			}
			reqs = append(reqs, q)
			per = append(per, q.wire(r))
		}
		wire := flat(per)
		var replies, rbody [][]byte
		var rstat []int
		for i := 0; i < 3; i++ {
			rp, st, bd := genReply(r, i)
			replies, rstat, rbody = append(replies, rp), append(rstat, st), append(rbody, bd)
		}
		prefix := "relay"
		if !modelled {
			prefix = "@relay"
		}
		splits := []int{}
		if d%2 == 1 {
			splits = []int{r.Intn(40), 40 + r.Intn(200), 300 + r.Intn(6000)}
		}
		runRelayHTTP(prefix, reqs, wire, [][]byte{wire}, false, replies, rstat, rbody, splits)
		runRelayHTTP(prefix, reqs, wire, per, false, replies, rstat, rbody, splits)
		runRelayHTTP("@relay", reqs, wire, per, true, replies, rstat, rbody, splits)
		stride := len(wire)/maxCuts + 1
		for c := 1 + r.Intn(stride); c < len(wire); c += stride {
			runRelayHTTP(prefix, reqs, wire, cutAt(wire, []int{c}), false, replies, rstat, rbody, splits)
		}
		for k := 0; k < 6; k++ {
			runRelayHTTP(prefix, reqs, wire, cutAt(wire, []int{r.Intn(len(wire)), r.Intn(len(wire)), r.Intn(len(wire))}), false, replies, rstat, rbody, splits)
		}
	}
	// every method against every reply shape (status 200/204/304/404/500, body sizes 0/1/large): HEAD replies declare
	// the length of a body they do not carry, 204 and 304 carry none
	for mi, m := range []string{"HEAD", "GET", "OPTIONS", "DELETE"} {
		var reqs []hreq
		var per [][]byte
		for k := 0; k < 3; k++ {
			q := genHReq(r, false)
			q.method, q.body, q.chunked = m, nil, false
			reqs = append(reqs, q)
			per = append(per, q.wire(r))
		}
		var replies, rbody [][]byte
		var rstat []int
		for i := 0; i < 3; i++ {
			rp, st, bd := genReplyWith(r, i, []int{200, 404, 500}[(i+mi)%3], []int{1, 4821, 0}[i])
			replies, rstat, rbody = append(replies, rp), append(rstat, st), append(rbody, bd)
		}
		runRelayHTTP("@relay", reqs, flat(per), per, mi%2 == 0, replies, rstat, rbody, nil)
	}
	// bodies around the buffer sizes a relay might use, content-length and chunked
	for _, n := range []int{4095, 4096, 4097, 32767, 32768, 32769, 65535, 65536} {
		for _, ch := range []bool{false, true} {
			q := genHReq(r, true)
			q.method, q.body, q.chunked = "POST", r.Bytes(n), ch
			q2 := genHReq(r, true)
			q2.method, q2.body = "GET", nil
			w1, w2 := q.wire(r), q2.wire(r)
			rp, st, bd := genReply(r, 0)
			runRelayHTTP("@relay", []hreq{q, q2}, nil, [][]byte{append(append([]byte(nil), w1...), w2...)}, false, [][]byte{rp}, []int{st}, [][]byte{bd}, nil)
		}
	}
	// copy: arbitrary streams in arbitrary segmentations, replies up to 64 KiB
	for d := 0; d < nDial*3; d++ {
		data := r.Bytes([]int{1, 7, 100, 4096, 65536}[r.Intn(5)])
		reply := r.Bytes([]int{0, 5, 3000, 65536}[r.Intn(4)])
		var cuts []int
		for k := r.Intn(6); k > 0; k-- {
			cuts = append(cuts, r.Intn(len(data)+1))
		}
		prefix := "relay"
		if len(data) > 5000 {
			prefix = "@relay"
		}
		runRelayCopy(prefix, cutAt(data, cuts), reply)
	}
	// a backend that speaks first, a client that waits for it
	for _, g := range [][]byte{[]byte("220 mail.example ESMTP\r\n"), r.Bytes(1), r.Bytes(5000), r.Bytes(40000)} {
		runRelayGreet(g, r.Bytes(r.Range(1, 300)), r.Bytes(r.Range(0, 300)))
	}
	// the port-less director shared by two services
	for d := 0; d < 4; d++ {
		var order []int
		var pl [][]byte
		for k := r.Range(2, 5); k > 0; k-- {
			order = append(order, r.Intn(2))
			pl = append(pl, r.Bytes(r.Range(1, 50)))
		}
		if d == 0 {
			order = []int{0, 1, 1, 0}
			pl = pl[:0]
			for range order {
				pl = append(pl, r.Bytes(9))
			}
		}
		runRelayPorts(order, pl)
	}
	// datagrams
	for d := 0; d < nDial*2; d++ {
		runRelayUDP(proxyLabGet().portCP, "udp", r.Bytes(r.Range(1, 1400)))
		q, _ := dnsQuery(r)
		runRelayUDP(5353, "dns", q)
		// replies larger than the query: around 512 (the classic DNS limit) and the sizes a relay buffer might have
		runRelayUDPSized(5353, "dns", q, []int{100, 511, 512, 513, 924, 1232, 1815, 4096, 9000}[d%9])
		runRelayUDPSized(proxyLabGet().portCP, "udp", r.Bytes(r.Range(1, 200)), []int{512, 513, 1500, 4096, 4097, 32768, 60000}[d%7])
	}
	// the ssh proxy against a real ssh backend
	genC15SSH(tier, r)
	// the director's target
	for _, h := range []string{"127.0.0.1", "127.0.0.1:81", "127.0.0.2:9", "[::1]:7", "127.0.0.3", "127.0.0.9:65535"} {
		for _, p := range []int{1, 80, 8080, 65535} {
			runRelayDial(h, p)
		}
	}
}

func newForwardDirector(host string) (director.Director, error) {
	cfg := &config.Config{}
	saved := os.Stdout
	os.Stdout = devNull
	err := cfg.Load(bytes.NewBufferString("[director.x]\ntype = \"forward\"\nhost = " + q(host) + "\n"))
	os.Stdout = saved
	if err != nil {
		return nil, err
	}
	fn, ok := director.Get("forward")
	if !ok {
		return nil, io.EOF
	}
	return fn(director.WithConfig(cfg.Directors["x"], cfg))
}
