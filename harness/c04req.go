package main

import (
	"encoding/hex"
	"fmt"
	"strings"

	"github.com/honeytrap/honeytrap/event"
)

// C04, the services that serve one request per connection (elasticsearch, eos, ethereum, docker, cwmp, ipp) and ldap
// (a sequence of BER messages). Oracle only (no Lean model of these handlers):
//
// @req <service> <segment hex> ...   one connection delivering exactly these segments, then the client's end of stream
//   -> the events of the service's category, every field except the volatile ones (generic rendering)
//   oracle: (1) the events equal those of the same bytes delivered in one piece; (2) exactly one event per request /
//   message, in order, whose decoded fields (method, target, recorded body; ldap request type and message id) are the
//   ones that were sent.

type reqWant struct {
	kv map[string]string // field -> value the event must carry
}

func reqEvents(svc string, evs []event.Event) []event.Event {
	var r []event.Event
	for _, e := range evs {
		if e.Get("category") == svc {
			r = append(r, e)
		}
	}
	return r
}

var reqWhole = map[string]string{}

func runReq(svc string, segs [][]byte, wants []reqWant) { runReqX(svc, segs, wants, true) }

func runReqX(svc string, segs [][]byte, wants []reqWant, have bool) {
	lab := c04Lab()
	line := segLine("@req", svc, segs)
	modelled := map[string]bool{"elasticsearch": true, "docker": true, "eos": true, "ethereum": true, "cwmp": true}[svc]
	if modelled {
		line = segLine("seg1", svc, segs) // compared with the one-request machine of HT.Relay
	}
	if svc == "ldap" {
		line = segLine("seg", svc, segs) // compared with the BER framing machine of HT.Ldap
	}
	verdict := "ok"
	viol := func(sig, d string) {
		if verdict == "ok" {
			verdict = "viol:" + sig + ":" + d
		}
	}
	all := flat(segs)
	key := svc + "/" + string(all)
	ref, ok := reqWhole[key]
	if !ok {
		r := lab.stream(svc, [][]byte{all}, false, len(wants))
		ref = joinEv(genericEvents(reqEvents(svc, r.events)))
		if !r.returned {
			ref = "hang"
		}
		reqWhole[key] = ref
	}
	r := lab.stream(svc, segs, false, len(wants))
	evs := reqEvents(svc, r.events)
	got := joinEv(genericEvents(evs))
	if !r.returned {
		got = "hang"
		viol("handler-does-not-return", svc+": handle() still running 10 s after the client's end of stream")
	}
	if got != ref {
		viol("segmentation-changes-events", fmt.Sprintf("%s: %d segments give %s, the same bytes in one piece give %s", svc, len(segs), clip(got, 300), clip(ref, 300)))
	}
	if !have {
	} else if len(evs) != len(wants) {
		viol("events-differ-from-commands", fmt.Sprintf("%s: %d request(s) sent, %d event(s) captured", svc, len(wants), len(evs)))
	} else {
		for i, w := range wants {
			for k, v := range w.kv {
				have := evAny(evs[i], k)
				if k == "payload-hex" {
					b, _ := hex.DecodeString(have)
					have = string(b)
				}
				if have != v {
					viol("events-differ-from-commands", fmt.Sprintf("%s: request %d: field %s is %q, sent %q", svc, i, k, clip(have, 120), clip(v, 120)))
				}
			}
		}
	}
	if modelled {
		var r []string
		for _, e := range evs {
			body := e.Get("http.body")
			if svc != "cwmp" {
				b, _ := hex.DecodeString(e.Get("payload-hex"))
				body = string(b)
			}
			r = append(r, svc+":"+hxs(e.Get("http.method"), e.Get("http.url"), body))
		}
		if got == "hang" {
			r = []string{"hang"}
		}
		emit(line, joinEv(r), verdict, len(evs) > 0)
		return
	}
	if svc == "ldap" {
		var r []string
		for _, e := range evs {
			r = append(r, "ldap:"+hxs(evAny(e, "ldap.message-id"), evAny(e, "ldap.request-type")))
		}
		if got == "hang" {
			r = []string{"hang"}
		}
		emit(line, joinEv(r), verdict, len(evs) > 0)
		return
	}
	emit(line, fmt.Sprintf("events=%d", len(evs)), verdict, len(evs) > 0)
}

func httpReq(method, target, ctype string, body []byte, extra ...string) []byte {
	var b strings.Builder
	fmt.Fprintf(&b, "%s %s HTTP/1.1\r\nHost: sensor.example\r\n", method, target)
	for _, h := range extra {
		b.WriteString(h + "\r\n")
	}
	if ctype != "" {
		fmt.Fprintf(&b, "Content-Type: %s\r\n", ctype)
	}
	if body != nil || method == "POST" || method == "PUT" {
		fmt.Fprintf(&b, "Content-Length: %d\r\n", len(body))
	}
	b.WriteString("\r\n")
	return append([]byte(b.String()), body...)
}

func jsonBody(r *Rng, n int) []byte {
	// a JSON object of exactly n bytes (n >= 8)
	if n < 8 {
		n = 8
	}
	pad := make([]byte, n-8)
	for i := range pad {
		pad[i] = "abcdefghijklmnopqrstuvwxyz0123456789 "[r.Intn(37)]
	}
	return []byte(`{"q":"` + string(pad) + `"}`)
}

// one generated request per service: bytes and what its event must carry
func genReq(svc string, r *Rng, bodyLen int) ([]byte, []reqWant) {
	first := func(b []byte, n int) string {
		if len(b) > n {
			return string(b[:n])
		}
		return string(b)
	}
	switch svc {
	case "elasticsearch":
		if bodyLen == 0 {
			t := []string{"/", "/_search?q=" + word(r, 20), "/_cat/indices", "/_nodes"}[r.Intn(4)]
			return httpReq("GET", t, "", nil), []reqWant{{map[string]string{"http.method": "GET", "http.url": t, "payload-hex": ""}}}
		}
		body := jsonBody(r, bodyLen)
		t := "/" + word(r, 8) + "/_search"
		// the service records the first 1024 bytes of the body
		return httpReq("POST", t, "application/json", body), []reqWant{{map[string]string{"http.method": "POST", "http.url": t, "payload-hex": first(body, 1024)}}}
	case "docker":
		if bodyLen == 0 {
			t := []string{"/version", "/v1.24/info", "/v1.24/containers/json?all=1", "/images/json", "/" + word(r, 12)}[r.Intn(5)]
			return httpReq("GET", t, "", nil), []reqWant{{map[string]string{"http.method": "GET", "http.url": t, "payload-hex": ""}}}
		}
		body := jsonBody(r, bodyLen)
		t := "/v1.24/containers/create?name=" + word(r, 8)
		return httpReq("POST", t, "application/json", body), []reqWant{{map[string]string{"http.method": "POST", "http.url": t, "payload-hex": first(body, 1024)}}}
	case "eos":
		body := jsonBody(r, bodyLen)
		t := []string{"/v1/chain/get_info", "/v1/chain/get_block", "/v1/wallet/list_wallets", "/v1/" + word(r, 10)}[r.Intn(4)]
		return httpReq("POST", t, "application/json", body), []reqWant{{map[string]string{"http.method": "POST", "http.url": t, "eos.method": t, "payload-hex": string(body)}}}
	case "ethereum":
		m := []string{"eth_blockNumber", "eth_accounts", "net_version", "personal_unlockAccount", word(r, 10)}[r.Intn(5)]
		pad := ""
		if bodyLen > 80 {
			pad = strings.Repeat("0", bodyLen-80)
		}
		body := []byte(fmt.Sprintf(`{"jsonrpc":"2.0","method":"%s","params":["0x%s"],"id":%d}`, m, pad, r.Intn(1000)))
		return httpReq("POST", "/", "application/json", body), []reqWant{{map[string]string{"http.method": "POST", "http.url": "/", "ethereum.method": m, "type": m, "payload-hex": string(body)}}}
	case "cwmp":
		arg := word(r, 12)
		if bodyLen > 300 {
			arg += strings.Repeat("y", bodyLen-300)
		}
		body := []byte(`<?xml version="1.0"?><soap:Envelope xmlns:soap="http://schemas.xmlsoap.org/soap/envelope/" xmlns:cwmp="urn:dslforum-org:cwmp-1-0"><soap:Body><cwmp:Inform><DeviceId><SerialNumber>` + arg + `</SerialNumber></DeviceId></cwmp:Inform></soap:Body></soap:Envelope>`)
		return httpReq("POST", "/", "text/xml", body), []reqWant{{map[string]string{"http.method": "POST", "http.url": "/", "http.body": string(body)}}}
	case "ipp":
		q := ippRandReq(r, bodyLen)
		raw := q.encode()
		w := map[string]string{"ipp.data": string(q.data)}
		if !q.noEnd {
			w["ipp.uri"], w["ipp.user"], w["ipp.job-name"] = q.field("printer-uri"), q.field("requesting-user-name"), q.field("job-name")
		}
		return httpReq("POST", "/printers/x", "application/ipp", raw), []reqWant{{w}}
	}
	return nil, nil
}

// ldap: bind, gated/ungated operations, unbind as one byte stream of BER messages
func genLDAPMsgs(r *Rng) ([]byte, []reqWant) {
	var b []byte
	var ws []reqWant
	n := r.Range(1, 5)
	id := 1
	for i := 0; i < n; i++ {
		switch r.Intn(3) {
		case 0:
			cn, pw := word(r, 8), word(r, 10)
			b = append(b, ldapBindReq(id, "cn="+cn+",dc=example", pw)...)
			// the service evaluates (and records) the cn of the bind DN as the user name
			ws = append(ws, reqWant{map[string]string{"ldap.request-type": "bind", "ldap.message-id": fmt.Sprint(id), "ldap.username": cn, "ldap.password": pw}})
		case 1:
			b = append(b, ldapOpReq(id, 0x4a)...) // delete
			ws = append(ws, reqWant{map[string]string{"ldap.request-type": "delete", "ldap.message-id": fmt.Sprint(id)}})
		case 2:
			b = append(b, ldapOpReq(id, 0x6e)...) // compare (gated)
			ws = append(ws, reqWant{map[string]string{"ldap.request-type": "compare", "ldap.message-id": fmt.Sprint(id)}})
		}
		if r.Intn(3) == 0 {
			// the other operations, and a message whose length needs the long form (a 150..200-byte name)
			id++
			ops := []struct {
				tag byte
				typ string
			}{{0x66, "modify"}, {0x68, "add"}, {0x6c, "modify-dn"}, {0x50, "abandon"}, {0x4a, "delete"}}
			o := ops[r.Intn(len(ops))]
			inner := berTLV(0x04, []byte("cn="+strings.Repeat("n", r.Pick([]int{1, 100, 122, 123, 124, 150, 200}))+",dc=example"))
			if o.tag == 0x50 || o.tag == 0x4a {
				inner = inner[2:]
				if len(inner) > 120 {
					inner = inner[len(inner)-120:]
				}
			}
			msg := append(berTLV(0x02, []byte{byte(id)}), berTLV(o.tag, inner)...)
			b = append(b, berTLV(0x30, msg)...)
			ws = append(ws, reqWant{map[string]string{"ldap.request-type": o.typ, "ldap.message-id": fmt.Sprint(id)}})
		}
		id++
	}
	if r.Bool() {
		b = append(b, berTLV(0x30, append(berTLV(0x02, []byte{byte(id)}), 0x42, 0x00))...)
		ws = append(ws, reqWant{map[string]string{"ldap.request-type": "unbind", "ldap.message-id": fmt.Sprint(id)}})
	}
	return b, ws
}

func genC04Req(tier string, r *Rng) {
	svcs := []string{"elasticsearch", "docker", "eos", "ethereum", "cwmp", "ipp"}
	for _, name := range append(append([]string(nil), svcs...), "ldap") {
		if _, ok := c04Lab().byNm[name]; !ok {
			fmt.Fprintf(out, "#stat c04req_missing_%s 1\n", name)
		}
	}
	sizes := []int{0, 10, 600, 1023, 1024, 1025, 1500, 3000}
	per := 1
	if tier == "thorough" {
		per = 8
	}
	for _, svc := range svcs {
		for _, n := range sizes {
			if (svc == "eos" || svc == "ethereum" || svc == "cwmp") && n == 0 {
				n = 90
			}
			for k := 0; k < per; k++ {
				req, wants := genReq(svc, r, n)
				runReq(svc, [][]byte{req}, wants)
				// every single cut (quick: every cut near the head/body boundary and inside the body at a stride)
				hdrEnd := strings.Index(string(req), "\r\n\r\n") + 4
				for c := 1; c < len(req); c++ {
					near := c <= 24 || (c >= hdrEnd-6 && c <= hdrEnd+6) || c >= len(req)-3 || c == 1024+hdrEnd || c == 1023+hdrEnd
					if tier != "thorough" && !near && c%97 != 0 {
						continue
					}
					if tier == "thorough" && k > 0 && !near && c%7 != 0 {
						continue
					}
					runReq(svc, [][]byte{req[:c], req[c:]}, wants)
				}
				// the stream cut short (end of stream inside the head or the body): no expectation from the
				// commands, the model and the one-piece reference decide
				if svc != "ipp" {
					for _, c := range []int{1, hdrEnd / 2, hdrEnd - 1, hdrEnd, hdrEnd + 1, (hdrEnd + len(req)) / 2, len(req) - 1} {
						if c > 0 && c < len(req) {
							runReqX(svc, [][]byte{req[:c]}, nil, false)
							runReqX(svc, [][]byte{req[:c/2], req[c/2 : c]}, nil, false)
						}
					}
				}
				// multi-cut and dribble of the head
				var segs [][]byte
				for p := 0; p < len(req); {
					q := p + 1 + r.Intn(200)
					if q > len(req) {
						q = len(req)
					}
					segs = append(segs, req[p:q])
					p = q
				}
				runReq(svc, segs, wants)
			}
		}
	}
	nl := 12
	if tier == "thorough" {
		nl = 80
	}
	for i := 0; i < nl; i++ {
		b, ws := genLDAPMsgs(r)
		runReq("ldap", [][]byte{b}, ws)
		for c := 1; c < len(b); c++ {
			runReq("ldap", [][]byte{b[:c], b[c:]}, ws)
		}
		var segs [][]byte
		for _, x := range b {
			segs = append(segs, []byte{x})
		}
		runReq("ldap", segs, ws)
	}
}
