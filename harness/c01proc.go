package main

import (
	sshfork "htverif/harness/sshfork"
	"bufio"
	"bytes"
	"context"
	"fmt"
	"io"
	"io/ioutil"
	"net"
	"os"
	"os/exec"
	"runtime"
	"strings"
	"sync"
	"sync/atomic"
	"time"

	"github.com/honeytrap/honeytrap/config"
	_ "github.com/honeytrap/honeytrap/listener/socket"
	"github.com/honeytrap/honeytrap/pushers"
	"github.com/honeytrap/honeytrap/server"
	"github.com/honeytrap/honeytrap/services"
	"golang.org/x/crypto/ssh"
)

// C01: no client traffic to an emulated service can terminate the honeypot process.
//
// The lab child is this binary in mode "c01child": a real Honeytrap with the real socket listener on loopback
// ports (service port + 20000), every lab service configured, running the real Run() accept loop. The parent
// sends scenarios over real sockets and after each one checks that the child is alive and still serves a probe.
//
// @proc <service> <k> <mode> <input hex>  : k concurrent connections to the service, each sending the input
//                                           (mode w = one write, d = one byte per write, h = write then half-close
//                                           and read to the end) -> "alive" | "died:<banner>"
// @heap <service> <input hex>             : heap in use of the child sampled while the client is idle after the input

const c01PortBase = 20000

type statSvc struct{}

func (s *statSvc) SetChannel(pushers.Channel) {}
func (s *statSvc) Handle(ctx context.Context, conn net.Conn) error {
	defer conn.Close()
	// live heap: collect first, so that a service that allocates and drops buffers at a steady rate (vnc pushing
	// frames to a connected client) does not look like growth between two collections
	runtime.GC()
	var m runtime.MemStats
	runtime.ReadMemStats(&m)
	fmt.Fprintf(conn, "heap=%d g=%d\n", m.HeapAlloc, runtime.NumGoroutine())
	return nil
}

func init() {
	services.Register("verif-stat", func(options ...services.ServicerFunc) services.Servicer { return &statSvc{} })
	register(&Stream{Name: "c01child", Gen: func(string, uint64) { c01Child() }, Replay: func(string) {}})
}

func c01Child() {
	ensureDataDir()
	var b strings.Builder
	b.WriteString("[listener]\ntype = \"socket\"\n")
	for _, s := range labServices {
		body := labBody(s)
		fmt.Fprintf(&b, "[service.%s]\ntype = %s\n%s\n", s.name, q(s.typ), body)
		svcs := q(s.name)
		if s.name == "shared" {
			svcs = q("cwmp") + ", " + q("shared")
		}
		fmt.Fprintf(&b, "[[port]]\nport = %s\nservices = [%s]\n", q(fmt.Sprintf("%s/127.0.0.1:%d", s.proto, c01PortBase+s.port)), svcs)
	}
	fmt.Fprintf(&b, "[service.stat]\ntype = \"verif-stat\"\n[[port]]\nport = %s\nservices = [\"stat\"]\n", q(fmt.Sprintf("tcp/127.0.0.1:%d", c01PortBase+9999)))
	cfg := &config.Config{}
	os.Stdout = devNull
	if err := cfg.Load(bytes.NewBufferString(b.String())); err != nil {
		fmt.Fprintln(os.Stderr, "config:", err)
		os.Exit(3)
	}
	hc := server.VerifNew(cfg, "tok-c01")
	fmt.Fprintln(os.Stderr, "C01CHILD-READY")
	hc.Run(context.Background())
	fmt.Fprintln(os.Stderr, "C01CHILD-RUN-RETURNED")
	os.Exit(4)
}

// ---- parent side ----

type c01Child_ struct {
	cmd    *exec.Cmd
	stderr *bytes.Buffer
	mu     sync.Mutex
	done   chan struct{}
}

func startChild() *c01Child_ {
	cmd := exec.Command(os.Args[0], "c01child")
	cmd.Env = append(os.Environ(), "GOTRACEBACK=single", "GOMEMLIMIT=6GiB")
	c := &c01Child_{cmd: cmd, stderr: &bytes.Buffer{}, done: make(chan struct{})}
	pr, pw := io.Pipe()
	cmd.Stderr = pw
	cmd.Stdout = nil
	if err := cmd.Start(); err != nil {
		panic(err)
	}
	go func() {
		sc := bufio.NewScanner(pr)
		sc.Buffer(make([]byte, 1<<20), 1<<20)
		for sc.Scan() {
			c.mu.Lock()
			if c.stderr.Len() < 1<<20 {
				c.stderr.WriteString(sc.Text() + "\n")
			}
			c.mu.Unlock()
		}
	}()
	go func() { cmd.Wait(); pw.Close(); close(c.done) }()
	// wait for the probe port
	deadline := time.Now().Add(60 * time.Second)
	for time.Now().Before(deadline) {
		if c.probe() {
			return c
		}
		select {
		case <-c.done:
			panic("c01 child exited during start: " + c.banner())
		case <-time.After(50 * time.Millisecond):
		}
	}
	panic("c01 child did not come up: " + c.banner())
}

func (c *c01Child_) alive() bool {
	select {
	case <-c.done:
		return false
	default:
		return true
	}
}

// banner: the line of the child's stderr that says why it ended
func (c *c01Child_) banner() string {
	c.mu.Lock()
	defer c.mu.Unlock()
	lines := strings.Split(c.stderr.String(), "\n")
	for _, l := range lines {
		if strings.HasPrefix(l, "panic:") || strings.HasPrefix(l, "fatal error:") || strings.HasPrefix(l, "runtime:") || strings.Contains(l, "signal") {
			return clip(l, 200)
		}
	}
	if len(lines) > 1 {
		return clip(lines[len(lines)-2], 200)
	}
	return "no output"
}

func (c *c01Child_) stop() {
	if c.alive() {
		c.cmd.Process.Kill()
		<-c.done
	}
}

// probe: a fresh connection to the echo port is served
// probe: a fresh connection to the echo port is served (tried up to three times over about two seconds: a verdict of
// "not served" is about the process having stopped serving, not about one slow accept on a busy machine)
func (c *c01Child_) probe() bool {
	for i := 0; i < 3; i++ {
		if c.probeOnce() {
			return true
		}
		if !c.alive() {
			return false
		}
		time.Sleep(500 * time.Millisecond)
	}
	return false
}

func (c *c01Child_) probeOnce() bool {
	conn, err := net.DialTimeout("tcp", fmt.Sprintf("127.0.0.1:%d", c01PortBase+7), time.Second)
	if err != nil {
		return false
	}
	defer conn.Close()
	conn.SetDeadline(time.Now().Add(2 * time.Second))
	msg := []byte("probe-c01\n")
	conn.Write(msg)
	buf := make([]byte, len(msg))
	_, err = io.ReadFull(conn, buf)
	return err == nil && bytes.Equal(buf, msg)
}

// steady waits until the child's heap has stopped moving (earlier scenarios may still be winding down)
func (c *c01Child_) steady() int {
	prev, _ := c.stat()
	for i := 0; i < 25; i++ {
		time.Sleep(200 * time.Millisecond)
		h, _ := c.stat()
		if h-prev < 2<<20 && prev-h < 64<<20 {
			return h
		}
		prev = h
	}
	return prev
}

func (c *c01Child_) stat() (heap, g int) {
	conn, err := net.DialTimeout("tcp", fmt.Sprintf("127.0.0.1:%d", c01PortBase+9999), time.Second)
	if err != nil {
		return -1, -1
	}
	defer conn.Close()
	conn.SetDeadline(time.Now().Add(2 * time.Second))
	b, _ := ioutil.ReadAll(conn)
	fmt.Sscanf(string(b), "heap=%d g=%d", &heap, &g)
	return
}

var udpSrc uint32

var c01child *c01Child_

func c01Get() *c01Child_ {
	if c01child == nil || !c01child.alive() {
		c01child = startChild()
	}
	return c01child
}

func sendOne(s labSvc, mode string, input []byte, hold time.Duration) {
	addr := fmt.Sprintf("127.0.0.1:%d", c01PortBase+s.port)
	if s.proto == "udp" {
		// a source address of its own per datagram (the services rate-limit per source IP)
		n := atomic.AddUint32(&udpSrc, 1)
		src := &net.UDPAddr{IP: net.IPv4(127, byte(1+n>>16%250), byte(n>>8), byte(1+n%250))}
		dst, _ := net.ResolveUDPAddr("udp", addr)
		conn, err := net.DialUDP("udp", src, dst)
		if err != nil {
			return
		}
		defer conn.Close()
		conn.Write(input)
		conn.SetReadDeadline(time.Now().Add(20 * time.Millisecond))
		buf := make([]byte, 65536)
		conn.Read(buf)
		return
	}
	conn, err := net.DialTimeout("tcp", addr, time.Second)
	if err != nil {
		return
	}
	defer conn.Close()
	conn.SetDeadline(time.Now().Add(5 * time.Second))
	go io.Copy(ioutil.Discard, conn)
	switch mode {
	case "d":
		for i := range input {
			if _, err := conn.Write(input[i : i+1]); err != nil {
				break
			}
		}
	default:
		conn.Write(input)
	}
	if mode == "h" {
		conn.(*net.TCPConn).CloseWrite()
	}
	time.Sleep(hold)
}

func runProc(svc string, k int, mode string, input []byte) bool {
	child := c01Get()
	s, ok := labSvcByName(svc)
	if !ok {
		return true
	}
	line := fmt.Sprintf("@proc %s %d %s %s", svc, k, mode, hx(input))
	var wg sync.WaitGroup
	for i := 0; i < k; i++ {
		wg.Add(1)
		hold := 15 * time.Millisecond
		if s.typ == "vnc" {
			hold = 150 * time.Millisecond // the frame pusher runs at 30 Hz
		}
		go func() { defer wg.Done(); sendOne(s, mode, input, hold) }()
	}
	wg.Wait()
	time.Sleep(3 * time.Millisecond)
	verdict, out := "ok", "alive"
	if !child.alive() {
		// give the pipe a moment to deliver the banner
		time.Sleep(50 * time.Millisecond)
		out = "died:" + child.banner()
		verdict = fmt.Sprintf("viol:process-terminated:%s: %d connection(s) sending %d bytes (%s) ended the process: %s", svc, k, len(input), mode, child.banner())
	} else if !child.probe() {
		time.Sleep(200 * time.Millisecond)
		if !child.alive() {
			out = "died:" + child.banner()
			verdict = fmt.Sprintf("viol:process-terminated:%s: %d connection(s) sending %d bytes (%s) ended the process: %s", svc, k, len(input), mode, child.banner())
		} else if !child.probe() {
			out = "probe-unserved"
			verdict = fmt.Sprintf("viol:new-connections-not-served:%s: after %d connection(s) sending %d bytes (%s) a fresh connection to the echo port is not served", svc, k, len(input), mode)
			child.stop()
		}
	}
	emit(line, out, verdict, len(input) > 0)
	return verdict == "ok"
}

// runProcSeq: several datagrams from ONE source address and port (a client that retransmits, or a short session),
// then the usual liveness check.  "@procseq <svc> <datagram hex> ..."
func runProcSeq(svc string, dgrams [][]byte) bool {
	child := c01Get()
	s, ok := labSvcByName(svc)
	if !ok || s.proto != "udp" {
		return true
	}
	var hs []string
	for _, d := range dgrams {
		hs = append(hs, hx(d))
	}
	line := fmt.Sprintf("@procseq %s %s", svc, strings.Join(hs, " "))
	n := atomic.AddUint32(&udpSrc, 1)
	src := &net.UDPAddr{IP: net.IPv4(127, byte(1+n>>16%250), byte(n>>8), byte(1+n%250))}
	dst, _ := net.ResolveUDPAddr("udp", fmt.Sprintf("127.0.0.1:%d", c01PortBase+s.port))
	if conn, err := net.DialUDP("udp", src, dst); err == nil {
		buf := make([]byte, 65536)
		for _, d := range dgrams {
			conn.Write(d)
			conn.SetReadDeadline(time.Now().Add(15 * time.Millisecond))
			conn.Read(buf)
		}
		conn.Close()
	}
	time.Sleep(3 * time.Millisecond)
	verdict, out := "ok", "alive"
	if !child.alive() || !child.probe() {
		time.Sleep(200 * time.Millisecond)
		if !child.alive() {
			out = "died:" + child.banner()
			verdict = fmt.Sprintf("viol:process-terminated:%s: %d datagrams from one source address and port ended the process: %s", svc, len(dgrams), child.banner())
		} else if !child.probe() {
			out = "probe-unserved"
			verdict = fmt.Sprintf("viol:new-connections-not-served:%s: after %d datagrams from one source a fresh connection to the echo port is not served", svc, len(dgrams))
			child.stop()
		}
	}
	emit(line, out, verdict, true)
	return verdict == "ok"
}

// runSSHEmptyPacket: a client completes the key exchange with AES-GCM and then sends a correctly authenticated packet
// whose plaintext is empty (sshfork: the pinned x/crypto/ssh with that one switch).  "@sshempty <svc>"
func runSSHEmptyPacket(svc string) {
	child := c01Get()
	s, ok := labSvcByName(svc)
	if !ok {
		return
	}
	line := "@sshempty " + svc
	func() {
		conn, err := net.DialTimeout("tcp", fmt.Sprintf("127.0.0.1:%d", c01PortBase+s.port), time.Second)
		if err != nil {
			return
		}
		defer conn.Close()
		conn.SetDeadline(time.Now().Add(3 * time.Second))
		sshfork.EmptyPlaintext = true
		defer func() { sshfork.EmptyPlaintext = false }()
		cfg := &sshfork.ClientConfig{User: "root", Auth: []sshfork.AuthMethod{sshfork.Password("root")}, HostKeyCallback: sshfork.InsecureIgnoreHostKey(), Timeout: 2 * time.Second}
		cfg.Ciphers = []string{"aes128-gcm@openssh.com"}
		c, _, _, err := sshfork.NewClientConn(conn, "lab", cfg)
		if err == nil {
			c.Close()
		}
	}()
	time.Sleep(100 * time.Millisecond)
	verdict, out := "ok", "alive"
	served := child.alive() && child.probe()
	if !served {
		time.Sleep(300 * time.Millisecond) // a dying process may still have been there when asked
	}
	if !child.alive() {
		out = "died:" + child.banner()
		// its own signature: this is the finding recorded in known-findings.txt (library defect; see DESIGN 11.3a)
		verdict = fmt.Sprintf("viol:ssh-empty-plaintext-packet-ends-process:%s: an AES-GCM packet with an empty plaintext after the key exchange (before any authentication) ended the process: %s", svc, child.banner())
	} else if !served && !child.probe() {
		out = "probe-unserved"
		verdict = fmt.Sprintf("viol:new-connections-not-served:%s: after an ssh packet with an empty plaintext a fresh connection to the echo port is not served", svc)
		child.stop()
	}
	emit(line, out, verdict, true)
}

// runProcLater: the process is still alive and serving `wait` after the datagram sessions above (timers armed by them
// have fired by then).  "@proclater <seconds>"
func runProcLater(since time.Time, wait time.Duration) {
	child := c01Get()
	if d := wait - time.Since(since); d > 0 {
		time.Sleep(d)
	}
	verdict, out := "ok", "alive"
	if !child.alive() {
		out = "died:" + child.banner()
		verdict = fmt.Sprintf("viol:process-terminated:the process ended without further input within %s of the datagram sessions: %s", wait, child.banner())
	} else if !child.probe() {
		out = "probe-unserved"
		verdict = "viol:new-connections-not-served:a fresh connection to the echo port is not served some seconds after the datagram sessions"
	}
	emit(fmt.Sprintf("@proclater %d", int(wait.Seconds())), out, verdict, true)
}

func labSvcByName(n string) (labSvc, bool) {
	for _, s := range labServices {
		if s.name == n {
			return s, true
		}
	}
	return labSvc{}, false
}

// runHeap: send the input, keep the connection open and idle, sample the child's heap
func runHeap(svc string, input []byte) {
	child := c01Get()
	s, _ := labSvcByName(svc)
	line := fmt.Sprintf("@heap %s %s", svc, hx(input))
	h0 := child.steady()
	done := make(chan struct{})
	go func() { defer close(done); sendOne(s, "h", input, 1800*time.Millisecond) }()
	time.Sleep(300 * time.Millisecond)
	h1, _ := child.stat()
	time.Sleep(600 * time.Millisecond)
	h2, _ := child.stat()
	time.Sleep(600 * time.Millisecond)
	h3, _ := child.stat()
	<-done
	verdict, out := "ok", "steady"
	const mb = 1 << 20
	if !child.alive() {
		out = "died:" + child.banner()
		verdict = fmt.Sprintf("viol:process-terminated:%s: %d bytes then silence ended the process: %s", svc, len(input), child.banner())
	} else if h2-h1 > 16*mb && h3-h2 > 16*mb && h1-h0 > 4*mb {
		out = "growing"
		verdict = fmt.Sprintf("viol:memory-grows-without-input:%s: heap in use %d MiB before, then %d, %d, %d MiB at 0.3, 0.9 and 1.5 s after the input with the client idle", svc, h0/mb, h1/mb, h2/mb, h3/mb)
		child.stop()
	}
	emit(line, out, verdict, len(input) > 0)
}

// runSSH: an authenticated ssh session sending channel requests with the given payloads; then the client idles
// "@ssh <type>:<payload hex> ..." ; channel type "session" unless an item is "chan:<type>:<extra hex>"
func runSSH(items []string) {
	child := c01Get()
	line := "@ssh " + strings.Join(items, " ")
	h0 := child.steady()
	func() {
		conn, err := net.DialTimeout("tcp", fmt.Sprintf("127.0.0.1:%d", c01PortBase+2222), time.Second)
		if err != nil {
			return
		}
		defer conn.Close()
		conn.SetDeadline(time.Now().Add(8 * time.Second))
		cc := &ssh.ClientConfig{User: "root", Auth: []ssh.AuthMethod{ssh.Password("root")}, HostKeyCallback: ssh.InsecureIgnoreHostKey(), Timeout: 5 * time.Second}
		c, chans, reqs, err := ssh.NewClientConn(conn, "lab", cc)
		if err != nil {
			return
		}
		defer c.Close()
		go ssh.DiscardRequests(reqs)
		go func() {
			for range chans {
			}
		}()
		var ch ssh.Channel
		for _, it := range items {
			p := strings.SplitN(it, ":", 3)
			if p[0] == "chan" && len(p) == 3 {
				nc, rq, err := c.OpenChannel(p[1], unhx(p[2]))
				if err == nil {
					go ssh.DiscardRequests(rq)
					nc.Close()
				}
				continue
			}
			if ch == nil {
				nc, rq, err := c.OpenChannel("session", nil)
				if err != nil {
					return
				}
				go ssh.DiscardRequests(rq)
				ch = nc
			}
			done := make(chan struct{})
			go func() { defer close(done); ch.SendRequest(p[0], true, unhx(p[1])) }()
			select {
			case <-done:
			case <-time.After(400 * time.Millisecond):
			}
		}
		time.Sleep(300 * time.Millisecond)
	}()
	h1, _ := child.stat()
	time.Sleep(500 * time.Millisecond)
	h2, _ := child.stat()
	verdict, out := "ok", "alive"
	const mb = 1 << 20
	if h2-h1 > 16*mb && h1-h0 > 4*mb { // confirm that it keeps growing
		time.Sleep(500 * time.Millisecond)
		h3, _ := child.stat()
		if h3-h2 <= 16*mb {
			h1, h2 = h0, h0
		}
	}
	if !child.alive() {
		time.Sleep(50 * time.Millisecond)
		out = "died:" + child.banner()
		verdict = "viol:process-terminated:ssh-simulator: the session " + strings.Join(items, " ") + " ended the process: " + child.banner()
	} else if h2-h1 > 16*mb && h1-h0 > 4*mb {
		out = "growing"
		verdict = fmt.Sprintf("viol:memory-grows-without-input:ssh-simulator: after the session %s the heap in use went %d -> %d -> %d MiB with no client connected", strings.Join(items, " "), h0/mb, h1/mb, h2/mb)
		child.stop()
	} else if !child.probe() {
		out = "probe-unserved"
		verdict = "viol:new-connections-not-served:ssh-simulator: after the session " + strings.Join(items, " ") + " a fresh connection to the echo port is not served"
		child.stop()
	}
	emit(line, out, verdict, true)
}

// runConfSSH: the strings the real exec-request handler decodes from a payload (in-process lab, real ssh client),
// compared with HT.Conf.sshStrings
func runConfSSH(payload []byte) {
	lab := c09Lab()
	line := "conf ssh " + hx(payload)
	cli, done := serveTCP(lab, "ssh-simulator")
	defer func() {
		cli.Close()
		select {
		case <-done:
		case <-time.After(3 * time.Second):
		}
	}()
	cli.SetDeadline(time.Now().Add(8 * time.Second))
	cc := &ssh.ClientConfig{User: "root", Auth: []ssh.AuthMethod{ssh.Password("root")}, HostKeyCallback: ssh.InsecureIgnoreHostKey(), Timeout: 5 * time.Second}
	c, chans, reqs, err := ssh.NewClientConn(cli, "lab", cc)
	if err != nil {
		emit(line, "no-session", "ok", false)
		return
	}
	defer c.Close()
	go ssh.DiscardRequests(reqs)
	go func() {
		for range chans {
		}
	}()
	ch, rq, err := c.OpenChannel("session", nil)
	if err != nil {
		emit(line, "no-channel", "ok", false)
		return
	}
	go ssh.DiscardRequests(rq)
	go ch.SendRequest("exec", true, payload)
	out, verdict := "spin", "ok"
	deadline := time.Now().Add(1500 * time.Millisecond)
	for time.Now().Before(deadline) && out == "spin" {
		for _, e := range lab.eventsFrom(cli.LocalAddr()) {
			if e.Get("ssh.request-type") == "exec" {
				var l []string
				e.Range(func(k, v interface{}) bool {
					if fmt.Sprint(k) == "ssh.exec" {
						l, _ = v.([]string)
					}
					return true
				})
				var p []string
				for _, x := range l {
					p = append(p, hx([]byte(x)))
				}
				out = strings.Join(p, ",")
				if len(p) == 0 {
					out = "none"
				}
			}
		}
		time.Sleep(2 * time.Millisecond)
	}
	if out == "spin" {
		verdict = fmt.Sprintf("viol:memory-grows-without-input:ssh-simulator: an exec request with the %d-byte payload %s is still being decoded after 1.5 s", len(payload), hx(payload))
		emit(line, out, verdict, true)
		out2 := out
		_ = out2
		flushAndExit()
	}
	emit(line, out, verdict, len(payload) > 0)
}

func flushAndExit() {
	out.Flush()
	if c01child != nil {
		c01child.stop()
	}
	os.Exit(0)
}

// runBig: "@big <service> <unit hex> <count>": the unit repeated count times on one connection (inputs too large to spell out)
func runBig(svc string, unit []byte, count int) {
	child := c01Get()
	s, _ := labSvcByName(svc)
	line := fmt.Sprintf("@big %s %s %d", svc, hx(unit), count)
	func() {
		conn, err := net.DialTimeout("tcp", fmt.Sprintf("127.0.0.1:%d", c01PortBase+s.port), time.Second)
		if err != nil {
			return
		}
		defer conn.Close()
		conn.SetDeadline(time.Now().Add(20 * time.Second))
		go io.Copy(ioutil.Discard, conn)
		chunk := bytes.Repeat(unit, 65536/len(unit)+1)
		per := len(chunk) / len(unit)
		for sent := 0; sent < count; sent += per {
			if _, err := conn.Write(chunk); err != nil {
				break
			}
		}
		time.Sleep(200 * time.Millisecond)
	}()
	verdict, out := "ok", "alive"
	for i := 0; i < 40 && child.alive() && !child.probe(); i++ {
		time.Sleep(100 * time.Millisecond)
	}
	if !child.alive() {
		time.Sleep(50 * time.Millisecond)
		out = "died:" + child.banner()
		verdict = fmt.Sprintf("viol:process-terminated:%s: one connection sending %d x %s ended the process: %s", svc, count, hx(unit), child.banner())
	} else if !child.probe() {
		out = "probe-unserved"
		verdict = fmt.Sprintf("viol:new-connections-not-served:%s: after %d x %s a fresh connection to the echo port is not served", svc, count, hx(unit))
		child.stop()
	}
	emit(line, out, verdict, true)
}

func init() {
	register(&Stream{Name: "c01proc", Gen: genC01, Replay: func(l string) {
		f := strings.Fields(l)
		if len(f) == 5 && f[0] == "@proc" {
			var k int
			fmt.Sscan(f[2], &k)
			runProc(f[1], k, f[3], unhx(f[4]))
		} else if len(f) >= 3 && f[0] == "@procseq" {
			var ds [][]byte
			for _, h := range f[2:] {
				ds = append(ds, unhx(h))
			}
			runProcSeq(f[1], ds)
		} else if len(f) == 2 && f[0] == "@sshempty" {
			runSSHEmptyPacket(f[1])
		} else if len(f) == 2 && f[0] == "@proclater" {
			var sec int
			fmt.Sscan(f[1], &sec)
			runProcLater(time.Now(), time.Duration(sec)*time.Second)
		} else if len(f) == 3 && f[0] == "@heap" {
			runHeap(f[1], unhx(f[2]))
		} else if len(f) >= 2 && f[0] == "@ssh" {
			runSSH(f[1:])
		} else if len(f) == 4 && f[0] == "@big" {
			var n int
			fmt.Sscan(f[3], &n)
			runBig(f[1], unhx(f[2]), n)
		} else if len(f) == 3 && f[0] == "conf" && f[1] == "ssh" {
			runConfSSH(unhx(f[2]))
		}
	}})
}

func genC01(tier string, seed uint64) {
	r := NewRng(seed ^ 0xc01)
	defer func() {
		if c01child != nil {
			c01child.stop()
		}
	}()
	c01Get()
	// datagram sessions first: the same request two and three times from one source address and port (retransmission),
	// and for tftp whole transfers; whatever they arm (timers, per-source state) has its effect while the rest runs and
	// is looked at again at the end
	for _, s := range labServices {
		if s.proto != "udp" {
			continue
		}
		for _, in := range append(c09Inputs(s.name, r), c01Inputs(s.name, r)...) {
			if len(in) == 0 {
				continue
			}
			runProcSeq(s.name, [][]byte{in, in})
			runProcSeq(s.name, [][]byte{in, in, in[:len(in)/2+1], in})
		}
	}
	{
		wrq := func(name string) []byte { return append(append([]byte{0, 2}, name...), append([]byte{0}, "octet\x00"...)...) }
		data := func(block int, n int) []byte { return append([]byte{0, 3, byte(block >> 8), byte(block)}, bytes.Repeat([]byte{'d'}, n)...) }
		runProcSeq("tftp", [][]byte{wrq("a"), wrq("a"), data(1, 10)})
		runProcSeq("tftp", [][]byte{wrq("b"), data(1, 512), wrq("b"), data(1, 512), data(2, 3)})
		runProcSeq("tftp", [][]byte{wrq("c"), wrq("d")})
		runProcSeq("tftp", [][]byte{wrq("e"), data(1, 512), data(2, 512), data(2, 512), data(3, 0), data(4, 1)})
		runProcSeq("tftp", [][]byte{data(1, 5), {0, 4, 0, 1}, {0, 1, 'f', 0, 'o', 'c', 't', 'e', 't', 0}, {0, 1, 'f', 0, 'o', 'c', 't', 'e', 't', 0}, {0, 4, 0, 1}})
	}
	seqDone := time.Now()
	defer runProcLater(seqDone, 25*time.Second)
	for _, s := range labServices {
		ins := c09Inputs(s.name, r)
		ins = append(ins, c01Inputs(s.name, r)...)
		for i, in := range ins {
			mode := []string{"w", "h", "d"}[i%3]
			if len(in) > 3000 && mode == "d" {
				mode = "w"
			}
			runProc(s.name, 1, mode, in)
			if i%2 == 0 {
				runProc(s.name, 4, "w", in)
			}
			// truncations and mutations
			if len(in) > 4 {
				runProc(s.name, 1, "h", in[:r.Intn(len(in))])
				m := append([]byte(nil), in...)
				for k := r.Range(1, 3); k > 0; k-- {
					m[r.Intn(len(m))] = byte(r.Next())
				}
				runProc(s.name, 2, "w", m)
			}
		}
		if tier == "thorough" {
			for i := 0; i < 40; i++ {
				in := ins[r.Intn(len(ins))]
				if len(in) == 0 {
					in = r.Bytes(r.Range(1, 200))
				}
				m := append([]byte(nil), in...)
				for k := r.Range(1, 6); k > 0; k-- {
					m[r.Intn(len(m))] = byte(r.Next())
				}
				runProc(s.name, r.Range(1, 8), []string{"w", "h", "d"}[r.Intn(3)], m[:r.Range(1, len(m))])
			}
		}
	}
	// many clients at once on the same service object: the protocol-specific requests, 64 connections each
	for _, svc := range []string{"docker", "elasticsearch", "eos", "ethereum", "cwmp", "http", "ipp", "redis", "memcached", "ldap", "smtp", "ftp"} {
		ins := c01Inputs(svc, r)
		if len(ins) > 12 {
			ins = ins[:12]
		}
		for _, in := range ins {
			for round := 0; round < 2; round++ {
				if !runProc(svc, 64, "w", in) {
					break
				}
			}
		}
	}
	// ssh sessions: channel requests with well-formed, short and odd payloads
	str := func(x string) string { return hx(append([]byte{0, 0, 0, byte(len(x))}, x...)) }
	for _, items := range [][]string{
		{"exec:" + str("uname -a")}, {"env:" + str("LANG") + str("C")[0:0] + "", "shell:-"},
		{"exec:0000"}, {"exec:00"}, {"env:000000"}, {"exec:" + str("id") + "01"}, {"env:" + str("A") + "0000"},
		{"subsystem:00"}, {"subsystem:" + str("sftp")}, {"pty-req:" + str("xterm") + "0000005000000018"}, {"pty-req:00"},
		{"tcpip-forward:00"}, {"window-change:00"}, {"x11-req:-"}, {"exec:ffffffff"}, {"exec:7fffffff41"},
		{"chan:direct-tcpip:00", "exec:" + str("ls")}, {"chan:forwarded-tcpip:" + str("h") + "0000", "chan:x11:-"}, {"chan:direct-tcpip:ffffffff"},
	} {
		runSSH(items)
	}
	// the exec payload decoder against the model: every tail length 0..5 after 0..2 strings, bad lengths
	for ns := 0; ns <= 2; ns++ {
		for tail := 0; tail <= 5; tail++ {
			var p []byte
			for k := 0; k < ns; k++ {
				w := word(r, 6)
				p = append(p, 0, 0, 0, byte(len(w)))
				p = append(p, w...)
			}
			p = append(p, []byte{0, 0, 0, 9, 1}[:tail]...)
			runConfSSH(p)
		}
	}
	for _, p := range [][]byte{{0xff, 0xff, 0xff, 0xff}, {0x80, 0, 0, 0, 1}, {0, 0, 0, 0}, {0, 0, 0, 0, 0, 0, 0, 1, 65}, {0x7f, 0xff, 0xff, 0xff, 65, 66}} {
		runConfSSH(p)
	}
	// deep nesting / long repetitions (stack use grows with the input)
	runBig("redis", []byte("*1\r\n"), 6000000)
	runBig("ldap", []byte{0x30, 0x80}, 2000000)
	runBig("telnet", []byte{27, '['}, 1000000)
	// concurrent writers on the shared tables
	for i := 0; i < 12; i++ {
		b, _ := tftpReq(r)
		b[1] = 2
		if !runProc("tftp", 128, "w", b) {
			break
		}
	}
	for _, svc := range []string{"ssh-simulator", "ssh-auth"} {
		runSSHEmptyPacket(svc)
	}
	// BER lengths that announce gigabytes to terabytes, outermost and nested (the libraries allocate what is announced)
	for _, in := range [][]byte{{0x04, 0x86, 0x40, 0, 0, 0, 0, 0}, {0x04, 0x85, 0x7f, 0, 0, 0, 0}, {0x04, 0x86, 0x01, 0, 0, 0, 0, 0}, {0x30, 0x86, 0x40, 0, 0, 0, 0, 0},
		{0x30, 0x0a, 0x04, 0x86, 0x01, 0, 0, 0, 0, 0, 0, 0}, {0x30, 0x0c, 0x02, 0x01, 0x01, 0x60, 0x85, 0x7f, 0, 0, 0, 0, 0, 0}, {0x30, 0x88, 0x7f, 0xff, 0xff, 0xff, 0xff, 0xff, 0xff, 0xff}, {0x30, 0x84, 0xff, 0xff, 0xff, 0xff}} {
		for _, svc := range []string{"ldap", "snmp", "snmp-tcp"} {
			for rep := 0; rep < 3; rep++ {
				if !runProc(svc, 1+rep, "w", in) {
					break
				}
			}
		}
	}
	// memory while the client is idle
	for _, c := range []struct {
		svc string
		in  []byte
	}{
		{"redis", []byte("*3\r\n$3\r\nSET\r\n$1\r\nk\r\n$18446744073709551615\r\nfoo\r\n")},
		{"redis", []byte("*1000000000\r\n")},
		{"ipp", []byte("POST /ipp HTTP/1.1\r\nHost: p\r\nContent-Type: application/ipp\r\nContent-Length: 9\r\n\r\n\x02\x00\x00\x0b\x00\x00\x00\x01\x01")},
		{"memcached", []byte("set k 0 0 4000000000\r\nab")},
		{"http", []byte("POST / HTTP/1.1\r\nHost: h\r\nContent-Length: 4000000000\r\n\r\nab")},
		{"smtp", []byte("EHLO x\r\nMAIL FROM:<a@b>\r\nBDAT 2000000000 LAST\r\nab")},
		{"ldap", []byte{0x30, 0x84, 0x7f, 0xff, 0xff, 0xff, 0x02, 0x01, 0x01}},
		{"ssh-simulator", append([]byte("SSH-2.0-x\r\n"), []byte{0x7f, 0xff, 0xff, 0xff, 0x04, 20}...)},
		{"vnc", []byte("RFB 003.008\n\x01\x01")},
		{"telnet", append([]byte{27}, bytes.Repeat([]byte{'1'}, 300)...)},
	} {
		runHeap(c.svc, c.in)
	}
}

// c01Inputs: the legal-but-unusual sequences named by the property, and relatives
func c01Inputs(svc string, r *Rng) [][]byte {
	if svc == "shared" {
		svc = "http"
	}
	svc = strings.TrimSuffix(svc, "-tcp") // the stream twin of a datagram service gets the same inputs
	var ins [][]byte
	switch svc {
	case "https":
		// complete TLS 1.2 ClientHellos (the server goes on to choose a certificate) with server names of every kind
		for _, name := range []string{"", "example.com", "www.ex\xe4mple.com", "ex\xc3\xa4mple.org", strings.Repeat("a", 255), strings.Repeat("b.", 120) + "c", "a\x00b.example", "10.0.0.1", "example.com.", " ", "*.example.com", "xn--exmple-cua.com", "UPPER.Example.COM", "-", "a..b"} {
			h := hello{version: 0x0303, ciphers: []int{0xc02f, 0xc030, 0x009c, 0x002f, 0x0035, 0x000a},
				exts: []ext{{10, groupsBody([]int{29, 23, 24})}, {11, pointsBody([]int{0})}, {13, []byte{0, 8, 4, 1, 5, 1, 6, 1, 2, 1}}}}
			if name != "" {
				h.exts = append([]ext{{0, sniBody(name)}}, h.exts...)
			}
			var b []byte
			for _, rec := range records(h.encode(), 0) {
				b = append(b, rec...)
			}
			ins = append(ins, b)
		}
	case "ftp":
		ins = append(ins, []byte("USER anonymous\r\nPASS anonymous\r\nCWD /\r\nCWD ..\r\nCDUP\r\nPWD\r\n"), []byte("USER anonymous\r\nPASS anonymous\r\nLIST\r\nRETR x\r\nSTOR y\r\nNLST\r\nMLSD\r\n"),
			[]byte("USER anonymous\r\nPASS anonymous\r\nPORT 127,0,0,1,0,1\r\nLIST\r\n"), []byte("USER anonymous\r\nPASS anonymous\r\nREST 5\r\nRNFR a\r\nRNTO b\r\nSIZE a\r\nMDTM a\r\nDELE a\r\nRMD a\r\nMKD a\r\nAPPE a\r\n"),
			[]byte("AUTH TLS\r\n"), []byte("USER anonymous\r\nPASS anonymous\r\nEPRT |1|127.0.0.1|1|\r\nEPRT |9|x|y|\r\nPORT 1,2\r\nTYPE\r\nTYPE Z\r\nOPTS UTF8 ON\r\n"))
	case "ipp":
		hdr := func(n int) string {
			return fmt.Sprintf("POST /ipp HTTP/1.1\r\nHost: p\r\nContent-Type: application/ipp\r\nContent-Length: %d\r\n\r\n", n)
		}
		q := ippRandReq(r, 50)
		q.noEnd = true
		q.data = nil
		raw := q.encode()
		ins = append(ins, []byte(hdr(len(raw))+string(raw)), []byte(hdr(9)+"\x02\x00\x00\x02\x00\x00\x00\x01\x01"), []byte(hdr(12)+"\x02\x00\x00\x02\x00\x00\x00\x01\x01\x7f\x00\x01"))
	case "vnc":
		hs := []byte("RFB 003.008\n\x01\x01")
		setpf := func(bpp byte) []byte {
			return []byte{0, 0, 0, 0, bpp, 24, 0, 1, 0, 255, 0, 255, 0, 255, 16, 8, 0, 0, 0, 0}
		}
		upd := []byte{3, 0, 0, 0, 0, 0, 3, 0, 2, 0}
		ins = append(ins, append(append(append([]byte{}, hs...), setpf(8)...), upd...), append(append(append([]byte{}, hs...), setpf(0)...), upd...),
			append(append(append([]byte{}, hs...), setpf(255)...), upd...), append(append([]byte{}, hs...), []byte{2, 0, 0xff, 0xff, 0, 0, 0, 0}...),
			append(append([]byte{}, hs...), []byte{6, 0, 0, 0, 0x7f, 0xff, 0xff, 0xff, 'a'}...), append(append([]byte{}, hs...), []byte{4, 1, 0, 0, 0, 0, 0, 65, 5, 1, 0, 10, 0, 10, 9}...))
	case "redis":
		ins = append(ins, []byte(strings.Repeat("*1\r\n", 20000)), []byte("*1\r\n*1\r\n*0\r\n"), []byte("*2\r\n:1\r\n:2\r\n"), []byte("*1\r\n$-1\r\n"), []byte("*2\r\n$4\r\nINFO\r\n:5\r\n"), []byte("*2\r\n$4\r\ninfo\r\n*1\r\n:1\r\n"))
	case "ldap":
		// search requests with odd filters, huge and indefinite lengths
		srch := func(filter []byte) []byte {
			body := berTLV(0x04, nil)
			body = append(body, 0x0a, 1, 0, 0x0a, 1, 0, 0x02, 1, 0, 0x02, 1, 0, 0x01, 1, 0)
			body = append(body, filter...)
			body = append(body, berTLV(0x30, nil)...)
			msg := append(berTLV(0x02, []byte{1}), berTLV(0x63, body)...)
			return berTLV(0x30, msg)
		}
		ins = append(ins, srch(berTLV(0x87, []byte("objectClass"))), srch(berTLV(0xa3, append(berTLV(0x04, []byte("uid")), berTLV(0x04, []byte("x"))...))), srch(berTLV(0xa0, nil)), srch(berTLV(0xa2, berTLV(0xa2, berTLV(0xa2, nil)))),
			srch([]byte{0xa4, 0x02, 0x04, 0x00}), []byte{0x30, 0x80, 0x02, 0x01, 0x01, 0x63, 0x80}, berTLV(0x30, append(berTLV(0x02, []byte{1}), berTLV(0x77, berTLV(0x80, []byte("1.3.6.1.4.1.1466.20037")))...)),
			berTLV(0x30, berTLV(0x02, []byte{1})), berTLV(0x30, append(berTLV(0x02, []byte{1}), 0x60, 0x00)))
	case "ssh-simulator", "ssh-auth":
		ins = append(ins, []byte("SSH-2.0-x\r\n\x00\x00\x00\x0c\x0a\x14"), []byte("SSH-1.5-x\r\n"), bytes.Repeat([]byte("SSH-"), 300))
	case "tftp":
		ins = append(ins, []byte{0, 2}, []byte{0, 2, 'a'}, []byte{0, 3}, []byte{0, 3, 0}, append([]byte{0, 3, 0, 1}, r.Bytes(512)...), []byte{0, 1, 'a', 0}, []byte{0, 9, 1, 2})
	case "counterstrike":
		ins = append(ins, []byte{0xff, 0xff, 0xff, 0xff}, []byte{0xff}, []byte{0xff, 0xff, 0xff, 0xfe, 0x54}, nil)
	case "snmp":
		ins = append(ins, []byte{0x30}, []byte{0x30, 0xff}, []byte{0x30, 0x02, 0x02, 0x7f}, []byte{0x30, 0x03, 0x02, 0x01, 0x01}, []byte{0x30, 0x0b, 0x02, 0x01, 0x00, 0x04, 0x01, 'p', 0xa0, 0x03, 0x02, 0x01, 0x01})
	case "dns":
		ins = append(ins, []byte{0, 1, 1, 0, 0, 1, 0, 0, 0, 0, 0, 0, 0xc0, 0x0c, 0, 1, 0, 1}, []byte{0, 1, 1, 0, 0xff, 0xff, 0, 0, 0, 0, 0, 0}, []byte{0, 1, 1, 0, 0, 1, 0, 0, 0, 0, 0, 0, 63})
	case "memcachedu":
		ins = append(ins, []byte{0, 1, 0, 0}, append([]byte{0, 1, 0, 0, 0, 1, 0, 0}, "set k 0 0 5\r\n"...), append([]byte{0, 1, 0, 0, 0, 1, 0, 0}, "stats\r\nstats\r\nstats\r\n"...))
	case "telnet":
		ins = append(ins, append([]byte{27}, bytes.Repeat([]byte{'1'}, 255)...), append([]byte{27, '['}, bytes.Repeat([]byte{';'}, 300)...), []byte("\x1b[200~pasted\x1b[201~\r\n"), []byte{0xff, 0xfd, 0x01, 0xff, 0xfb, 0x03, 'a', 4, '\n', 4}, bytes.Repeat([]byte{8, 23, 21, 11, 1, 5}, 50))
	case "adb":
		cn := append([]byte("CNXN\x00\x00\x00\x01\x00\x10\x00\x00\x07\x00\x00\x00\x32\x02\x00\x00\xbc\xb1\xa7\xb1"), []byte("host::\x00")...)
		ins = append(ins, append(append([]byte{}, cn...), []byte("OPEN")...), append(append([]byte{}, cn...), []byte("WRTE\x01\x00")...), []byte("CNX"))
	case "docker":
		get := func(p string) []byte { return []byte("GET " + p + " HTTP/1.1\r\nHost: d\r\n\r\n") }
		post := func(p, body string) []byte {
			return []byte(fmt.Sprintf("POST %s HTTP/1.1\r\nHost: d\r\nContent-Type: application/json\r\nContent-Length: %d\r\n\r\n%s", p, len(body), body))
		}
		ins = append(ins, get("/info"), get("/version"), get("/v1.40/containers/json"), get("/v1.40/images/json"), get("/_ping"),
			post("/v1.40/containers/create", `{"Image":"alpine","Cmd":["sh"]}`), post("/v1.40/containers/abc/start", ""), post("/v1.40/containers/abc/wait", ""),
			post("/v1.40/containers/abc/attach?stream=1", ""), post("/v1.40/containers/abc/kill", ""), post("/v1.40/images/create?fromImage=alpine&tag=3", ""), post("/v1.40/images/create", ""))
		fallthrough
	case "elasticsearch", "eos", "ethereum", "cwmp":
		ins = append(ins, []byte("POST / HTTP/1.1\r\nHost: h\r\nContent-Length: 2\r\n\r\n{}"), []byte("POST / HTTP/1.1\r\nHost: h\r\nContent-Length: 40\r\n\r\n{\"jsonrpc\":\"2.0\",\"method\":1,\"params\":{}}"), []byte("POST /v1/chain/get_info HTTP/1.1\r\nHost: h\r\nContent-Length: 4\r\n\r\nnull"),
			[]byte("GET /containers/json?all=1 HTTP/1.1\r\nHost: h\r\n\r\n"), []byte("POST / HTTP/1.1\r\nHost: h\r\nContent-Length: 36\r\n\r\n{\"method\":\"eth_getBlockByNumber\",\"params\":[]}"), []byte("POST / HTTP/1.1\r\nHost: h\r\nContent-Length: 30\r\n\r\n[{\"method\":[],\"id\":{\"a\":null}}]"),
			[]byte("BREW / HTCPCP/1.0\r\n\r\n"), []byte("GET http://[::1]:namedport/ HTTP/1.1\r\n\r\n"))
	}
	return ins
}
