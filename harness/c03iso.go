package main

import (
	"bufio"
	"bytes"
	"fmt"
	"io"
	"net"
	"os"
	"regexp"
	"sort"
	"strings"
	"sync"
	"time"

	"github.com/honeytrap/honeytrap/event"
)

// C03: connections are isolated; events name the connection that caused them.
//
// iso tftp <addr>:<op> ...            : datagrams from several clients in this global order through the real handle()
//                                       -> per client "<addr>=[<reply hex>/<events>;...]" (compared with HT.Iso)
// iso ldap <creds> <sess>:<op> ...    : ldap sessions, one request per step, in this global order (compared with HT.Iso)
// @iso <svc> <k> <order> | <script 0> | <script 1> ... : scripted sessions of a stream service interleaved at
//                                       request/response granularity in the given order (oracle only)
// @hist <svc> <n> ...                 : n earlier sessions, closed, then a probe session (oracle only)
//
// Oracle (implementation only): each session's transcript and events equal those of the same session alone on a
// freshly built service.

// ---- a connection driven step by step ----

type stepConn struct {
	mu           sync.Mutex
	cond         *sync.Cond
	buf          []byte
	eof, closed  bool
	waiting      bool // the handler is blocked in Read with nothing buffered
	out          []byte
	lastWrite    time.Time
	laddr, raddr net.Addr
}

func newStepConn(laddr, raddr net.Addr) *stepConn {
	c := &stepConn{laddr: laddr, raddr: raddr}
	c.cond = sync.NewCond(&c.mu)
	return c
}

func (c *stepConn) Read(p []byte) (int, error) {
	c.mu.Lock()
	defer c.mu.Unlock()
	for len(c.buf) == 0 && !c.eof && !c.closed {
		c.waiting = true
		c.cond.Broadcast()
		c.cond.Wait()
	}
	c.waiting = false
	if c.closed {
		return 0, io.ErrClosedPipe
	}
	if len(c.buf) == 0 {
		return 0, io.EOF
	}
	n := copy(p, c.buf)
	c.buf = c.buf[n:]
	return n, nil
}

func (c *stepConn) Write(p []byte) (int, error) {
	c.mu.Lock()
	defer c.mu.Unlock()
	if c.closed {
		return 0, io.ErrClosedPipe
	}
	c.out = append(c.out, p...)
	c.lastWrite = time.Now()
	return len(p), nil
}

func (c *stepConn) Close() error {
	c.mu.Lock()
	c.closed = true
	c.cond.Broadcast()
	c.mu.Unlock()
	return nil
}

func (c *stepConn) push(b []byte) {
	c.mu.Lock()
	c.buf = append(c.buf, b...)
	c.waiting = false
	c.cond.Broadcast()
	c.mu.Unlock()
}

func (c *stepConn) clientClose() {
	c.mu.Lock()
	c.eof = true
	c.cond.Broadcast()
	c.mu.Unlock()
}

// quiesce waits until the handler has consumed what was pushed and is blocked reading again (or has closed the
// connection), and nothing was written for a moment; returns what it wrote since the last call.
func (c *stepConn) quiesce(max time.Duration) []byte {
	deadline := time.Now().Add(max)
	for {
		c.mu.Lock()
		idle := (c.waiting && len(c.buf) == 0) || c.closed
		quiet := time.Since(c.lastWrite) > 1500*time.Microsecond
		c.mu.Unlock()
		if (idle && quiet) || time.Now().After(deadline) {
			break
		}
		time.Sleep(300 * time.Microsecond)
	}
	c.mu.Lock()
	defer c.mu.Unlock()
	o := c.out
	c.out = nil
	return o
}

func (c *stepConn) LocalAddr() net.Addr                { return c.laddr }
func (c *stepConn) RemoteAddr() net.Addr               { return c.raddr }
func (c *stepConn) SetDeadline(t time.Time) error      { return nil }
func (c *stepConn) SetReadDeadline(t time.Time) error  { return nil }
func (c *stepConn) SetWriteDeadline(t time.Time) error { return nil }

// ---- views ----

var volatileKey = regexp.MustCompile(`^(date|token|sensor|source-ip|source-port|.*sessionid|.*session-id|.*\.id)$`)

// genericEvents renders every field of the events except the volatile ones and the client's own address.
func genericEvents(evs []event.Event) []string {
	var r []string
	for _, e := range evs {
		var kv []string
		e.Range(func(k, v interface{}) bool {
			ks := fmt.Sprint(k)
			if !volatileKey.MatchString(ks) {
				kv = append(kv, ks+"="+fmt.Sprintf("%x", fmt.Sprint(v)))
			}
			return true
		})
		sort.Strings(kv)
		r = append(r, strings.Join(kv, ","))
	}
	return r
}

var dateHdr = regexp.MustCompile(`(?i)date: [^\r\n]*`)

// the ftp filesystem root is a fresh unique directory per service construction (and error replies spell it out)
var ftpRoot = regexp.MustCompile(`/[^ \r\n]*htverif-lab-[0-9]+/ftp/[0-9a-f]+`)

func canonOut(b []byte) string {
	b = dateHdr.ReplaceAll(b, []byte("date: X"))
	b = ftpRoot.ReplaceAll(b, []byte("ROOT"))
	return hx(b)
}

type sessView struct {
	outs   []string
	events []string
}

func (v sessView) String() string {
	return "out[" + strings.Join(v.outs, ";") + "] ev[" + strings.Join(v.events, ";") + "]"
}

// runSchedule: scripts[i] = the steps of session i; order = the global order of steps (session indices).
// Every session is opened at its first step... all sessions are opened up front (they are concurrent connections).
func runSchedule(lab *svcLab, svc string, scripts [][][]byte, order []int) []sessView {
	s := lab.byNm[svc]
	conns := make([]*stepConn, len(scripts))
	dones := make([]chan struct{}, len(scripts))
	addrs := make([]net.Addr, len(scripts))
	views := make([]sessView, len(scripts))
	for i := range scripts {
		addrs[i] = lab.clientAddr(false)
		conns[i] = newStepConn(&net.TCPAddr{IP: net.IPv4(10, 0, 0, 1), Port: s.port}, addrs[i])
		dones[i] = make(chan struct{})
		go func(i int) { defer close(dones[i]); lab.hc.VerifHandle(conns[i]) }(i)
	}
	// greetings
	for i := range scripts {
		views[i].outs = append(views[i].outs, canonOut(conns[i].quiesce(300*time.Millisecond)))
	}
	next := make([]int, len(scripts))
	for _, k := range order {
		if next[k] >= len(scripts[k]) {
			continue
		}
		conns[k].push(scripts[k][next[k]])
		next[k]++
		views[k].outs = append(views[k].outs, canonOut(conns[k].quiesce(300*time.Millisecond)))
	}
	for i := range scripts {
		conns[i].clientClose()
	}
	for i := range scripts {
		select {
		case <-dones[i]:
		case <-time.After(5 * time.Second):
			conns[i].Close()
			views[i].outs = append(views[i].outs, "handler-still-running")
		}
		views[i].outs = append(views[i].outs, canonOut(conns[i].quiesce(20*time.Millisecond)))
	}
	for i := range scripts {
		views[i].events = genericEvents(lab.settle(addrs[i], 0, 200*time.Millisecond))
	}
	return views
}

// solo: the session alone on a freshly built service
var soloCache = map[string]sessView{}

func soloView(svc string, script [][]byte) sessView {
	key := svc
	for _, s := range script {
		key += "|" + string(s)
	}
	if v, ok := soloCache[key]; ok {
		return v
	}
	lab, err := newSvcLab(svc)
	if err != nil {
		panic(err)
	}
	if svc == "ftp" {
		ftpSetup(lab)
	}
	order := make([]int, len(script))
	v := runSchedule(lab, svc, [][][]byte{script}, order)[0]
	soloCache[key] = v
	return v
}

var c03lab *svcLab

// directories for the ftp sessions (the filesystem content is shared by design; working directories are not)
func ftpSetup(lab *svcLab) {
	runSchedule(lab, "ftp", [][][]byte{lines("USER anonymous\r\n", "PASS anonymous\r\n", "MKD /iso1\r\n", "MKD /iso2\r\n", "QUIT\r\n")}, make([]int, 5))
}

func c03Lab() *svcLab {
	if c03lab == nil {
		os.Stdout = devNull
		labToml["ldap"] = "credentials = [\"root:pw\", \"admin:secret\"]\n"

		l, err := newSvcLab("ftp", "telnet", "smtp", "redis", "memcached", "http", "ldap", "tftp")
		if err != nil {
			panic(err)
		}
		c03lab = l
	}
	return c03lab
}

func scriptsLine(prefix, svc string, scripts [][][]byte, order []int) string {
	var os []string
	for _, k := range order {
		os = append(os, itoa(k))
	}
	p := []string{prefix, svc, itoa(len(scripts)), strings.Join(os, "")}
	for _, sc := range scripts {
		var st []string
		for _, b := range sc {
			st = append(st, hx(b))
		}
		p = append(p, "|", strings.Join(st, ","))
	}
	return strings.Join(p, " ")
}

func runIso(svc string, scripts [][][]byte, order []int) {
	line := scriptsLine("@iso", svc, scripts, order)
	verdict := "ok"
	views := runSchedule(c03Lab(), svc, scripts, order)
	var outs []string
	for i, v := range views {
		solo := soloView(svc, scripts[i])
		outs = append(outs, v.String())
		if v.String() != solo.String() && verdict == "ok" {
			verdict = fmt.Sprintf("viol:session-depends-on-others:%s: session %d of %d in order %v sees %s, alone on a fresh service %s", svc, i, len(scripts), order, clip(v.String(), 500), clip(solo.String(), 500))
		}
	}
	emit(line, clip(strings.Join(outs, " || "), 2000), verdict, len(scripts) > 1)
}

// history: n earlier sessions (each run to its end and closed), then the probe
func runHist(svc string, earlier [][][]byte, probe [][]byte) {
	lab := c03Lab()
	line := scriptsLine("@hist", svc, append(append([][][]byte{}, earlier...), probe), nil)
	for _, sc := range earlier {
		runSchedule(lab, svc, [][][]byte{sc}, make([]int, len(sc)))
	}
	v := runSchedule(lab, svc, [][][]byte{probe}, make([]int, len(probe)))[0]
	solo := soloView(svc, probe)
	verdict := "ok"
	if v.String() != solo.String() {
		verdict = fmt.Sprintf("viol:session-depends-on-history:%s: after %d earlier sessions the probe sees %s, alone on a fresh service %s", svc, len(earlier), clip(v.String(), 500), clip(solo.String(), 500))
	}
	emit(line, clip(v.String(), 2000), verdict, len(earlier) > 0)
}

// ---- scripts ----

func lines(ls ...string) [][]byte {
	var r [][]byte
	for _, l := range ls {
		r = append(r, []byte(l))
	}
	return r
}

func isoScripts(svc string, r *Rng) [][][]byte {
	w := func() string { return word(r, 6) }
	switch svc {
	case "ftp":
		return [][][]byte{
			lines("USER anonymous\r\n", "PASS anonymous\r\n", "CWD /iso1\r\n", "PWD\r\n"),
			lines("USER anonymous\r\n", "PASS anonymous\r\n", "PWD\r\n", "CWD /iso2\r\n", "PWD\r\n"),
			lines("USER "+w()+"\r\n", "PASS x\r\n", "PWD\r\n", "SYST\r\n", "FEAT\r\n"),
			lines("PWD\r\n", "USER anonymous\r\n", "PASS anonymous\r\n", "CWD iso1\r\n", "CWD ..\r\n", "PWD\r\n"),
			lines("FEAT\r\n", "USER anonymous\r\n", "PASS anonymous\r\n", "TYPE I\r\n", "RNFR iso1\r\n", "FEAT\r\n"),
			lines("USER anonymous\r\n", "PASS anonymous\r\n", "REST 5\r\n", "RNTO zz\r\n", "MODE S\r\n", "HELP\r\n", "STAT\r\n"),
		}
	case "telnet":
		return [][][]byte{
			lines("root\r\n", "toor\r\n", "ls "+w()+"\r\n", "id\r\n"),
			lines("admin\r\n", "admin\r\n", "uname -a\r\n"),
			lines(w()+"\r\n", w()+"\r\n", "cat /etc/passwd\r\n", "exit\r\n"),
		}
	case "smtp":
		mail := func(from string) []byte {
			return []byte("From: " + from + "\r\nSubject: s " + from + "\r\n\r\nbody of " + from + "\r\n.\r\n")
		}
		a, b := w(), w()
		return [][][]byte{
			{[]byte("EHLO " + a + ".example\r\n"), []byte("MAIL FROM:<" + a + "@x>\r\n"), []byte("RCPT TO:<r@y>\r\n"), []byte("DATA\r\n"), mail(a), []byte("QUIT\r\n")},
			{[]byte("HELO " + b + "\r\n"), []byte("MAIL FROM:<" + b + "@x>\r\n"), []byte("RCPT TO:<q@y>\r\n"), []byte("DATA\r\n"), mail(b), []byte("NOOP\r\n")},
			{[]byte("EHLO c\r\n"), []byte("NOOP\r\n"), []byte("RSET\r\n"), []byte("HELP\r\n"), []byte("MAIL FROM:<c@x>\r\n"), []byte("BDAT 9\r\nSubject: "), []byte("RSET\r\n")},
			// a message abandoned between chunks, and one sent with BDAT ... LAST
			{[]byte("EHLO d\r\n"), []byte("MAIL FROM:<d@x>\r\n"), []byte("RCPT TO:<r@y>\r\n"), []byte("BDAT 31\r\nSubject: overdue\r\nX-Campaign: 7\r\n")},
			{[]byte("EHLO e\r\n"), []byte("MAIL FROM:<e@x>\r\n"), []byte("BDAT 24 LAST\r\nSubject: hi\r\n\r\nbody of e")},
		}
	case "redis":
		c := func(args ...string) []byte {
			s := fmt.Sprintf("*%d\r\n", len(args))
			for _, a := range args {
				s += respBulk(a)
			}
			return []byte(s)
		}
		return [][][]byte{
			{c("AUTH", w()), c("SET", "k", w()), c("GET", "k")},
			{c("PING"), c("GET", "k"), c("FLUSHALL")},
			{c("CONFIG", "GET", "dir"), c("KEYS", "*")},
			// the one command the service implements, with every section that describes the server's state
			{c("INFO"), c("info", "clients"), c("INFO", "all")},
			{c("info", "stats"), c("info", "keyspace"), c("info", "memory"), c("info", "default")},
		}
	case "memcached":
		v := w()
		return [][][]byte{
			lines("set k1 0 0 "+itoa(len(v))+"\r\n"+v+"\r\n", "get k1\r\n"),
			lines("get k1\r\n", "delete k1\r\n", "flush_all\r\n", "stats\r\n"),
			lines("version\r\n", "get "+w()+"\r\n"),
		}
	case "http":
		rq := func(m, p string) []byte {
			return []byte(m + " /" + p + " HTTP/1.1\r\nHost: h.example\r\nUser-Agent: " + p + "\r\n\r\n")
		}
		return [][][]byte{
			{rq("GET", w()), rq("OPTIONS", w()), rq("GET", w())},
			{rq("GET", w()), rq("HEAD", w())},
			{[]byte("POST /" + w() + " HTTP/1.1\r\nHost: h\r\nContent-Length: 3\r\n\r\nabc"), rq("GET", w())},
		}
	}
	return nil
}

// all interleavings of the step counts (as orders of session indices)
func interleavings(counts []int) [][]int {
	var res [][]int
	var rec func(cur []int, left []int)
	rec = func(cur []int, left []int) {
		done := true
		for k, n := range left {
			if n > 0 {
				done = false
				left[k]--
				rec(append(cur, k), left)
				left[k]++
			}
		}
		if done {
			res = append(res, append([]int(nil), cur...))
		}
	}
	rec(nil, append([]int(nil), counts...))
	return res
}

// ---- model-compared: tftp and ldap ----

func runIsoTFTP(sched []string) {
	// items "<ip>:<port>:<op...>"
	lab := c03Lab()
	line := "iso tftp " + strings.Join(sched, " ")
	views := map[string][]string{}
	var names []string
	solo := map[string][]string{} // the client's own datagrams, for the reference run
	for _, it := range sched {
		p := strings.Split(it, ":")
		name := p[0] + ":" + p[1]
		if _, ok := views[name]; !ok {
			names = append(names, name)
			views[name] = nil
		}
		solo[name] = append(solo[name], strings.Join(p[2:], ":"))
		views[name] = append(views[name], tftpSend(lab, name, p[2:]))
	}
	var parts []string
	for _, n := range names {
		parts = append(parts, n+"=["+strings.Join(views[n], ";")+"]")
	}
	verdict := "ok"
	// reference: each client alone on a fresh service
	for _, n := range names {
		fresh, err := newSvcLab("tftp")
		if err != nil {
			panic(err)
		}
		var ref []string
		for _, op := range solo[n] {
			ref = append(ref, tftpSend(fresh, n, strings.Split(op, ":")))
		}
		if strings.Join(ref, ";") != strings.Join(views[n], ";") && verdict == "ok" {
			verdict = fmt.Sprintf("viol:session-depends-on-others:tftp: client %s sees %s, alone on a fresh service %s", n, strings.Join(views[n], ";"), strings.Join(ref, ";"))
		}
	}
	emit(line, strings.Join(parts, " "), verdict, len(names) > 1)
}

func tftpSend(lab *svcLab, name string, op []string) string {
	host, port, _ := net.SplitHostPort(name)
	var pn int
	fmt.Sscan(port, &pn)
	from := &net.UDPAddr{IP: net.ParseIP(host), Port: pn}
	var b []byte
	switch op[0] {
	case "w", "r":
		code := byte(2)
		if op[0] == "r" {
			code = 1
		}
		b = append([]byte{0, code}, unhx(op[1])...)
		b = append(b, 0)
		b = append(b, unhx(op[2])...)
		b = append(b, 0)
	case "d":
		var blk int
		fmt.Sscan(op[1], &blk)
		b = append([]byte{0, 3, byte(blk >> 8), byte(blk)}, unhx(op[2])...)
	}
	before := len(lab.eventsFrom(from))
	res := lab.datagram("tftp", b, from)
	var evs []string
	for _, e := range res.events[before:] {
		f := []string{hx([]byte(strings.TrimSuffix(e.Get("tftp.filename"), "\x00"))), hx([]byte(strings.TrimSuffix(e.Get("tftp.mode"), "\x00")))}
		if e.Get("type") == "tftp-write-file" {
			c, _ := hexDecode(e.Get("tftp.file-hex"))
			f = append(f, hx(c))
		}
		evs = append(evs, e.Get("type")+"("+strings.Join(f, "|")+")")
	}
	return hx(res.out) + "/" + strings.Join(evs, ",")
}

// runIsoLDAP: items "<sess>:<op>" with op = b:<dn hex>:<pw hex> | g ; one connection per session name
func runIsoLDAP(creds string, sched []string) {
	lab := c03Lab()
	line := "iso ldap " + creds + " " + strings.Join(sched, " ")
	s := lab.byNm["ldap"]
	conns := map[string]*stepConn{}
	dones := map[string]chan struct{}{}
	views := map[string][]string{}
	own := map[string][]string{}
	var names []string
	send := func(l *svcLab, c *stepConn, id int, op []string) string {
		var req []byte
		switch op[0] {
		case "b":
			req = ldapBindReq(id, string(unhx(op[1])), string(unhx(op[2])))
		case "g":
			req = ldapOpReq(id, 0x4a)
		}
		c.push(req)
		out := c.quiesce(300 * time.Millisecond)
		return fmt.Sprint(ldapResult(bufio.NewReader(bytes.NewReader(out))))
	}
	open := func(l *svcLab) (*stepConn, chan struct{}) {
		c := newStepConn(&net.TCPAddr{IP: net.IPv4(10, 0, 0, 1), Port: s.port}, l.clientAddr(false))
		d := make(chan struct{})
		go func() { defer close(d); l.hc.VerifHandle(c) }()
		return c, d
	}
	for i, it := range sched {
		p := strings.Split(it, ":")
		n := p[0]
		if _, ok := conns[n]; !ok {
			names = append(names, n)
			conns[n], dones[n] = open(lab)
		}
		own[n] = append(own[n], strings.Join(p[1:], ":"))
		views[n] = append(views[n], send(lab, conns[n], i+1, p[1:]))
	}
	verdict := "ok"
	for _, n := range names {
		conns[n].clientClose()
		select {
		case <-dones[n]:
		case <-time.After(3 * time.Second):
			conns[n].Close()
			if verdict == "ok" {
				verdict = "viol:session-depends-on-others:ldap: the handler of session " + n + " does not see its own connection end (still running 3 s after the client closed)"
			}
		}
	}
	var parts []string
	for _, n := range names {
		parts = append(parts, n+"=["+strings.Join(views[n], ";")+"]")
		fresh, err := newSvcLab("ldap")
		if err != nil {
			panic(err)
		}
		c, d := open(fresh)
		var ref []string
		for i, op := range own[n] {
			ref = append(ref, send(fresh, c, i+1, strings.Split(op, ":")))
		}
		c.clientClose()
		select {
		case <-d:
		case <-time.After(3 * time.Second):
			c.Close()
		}
		if strings.Join(ref, ";") != strings.Join(views[n], ";") && verdict == "ok" {
			verdict = fmt.Sprintf("viol:session-depends-on-others:ldap: session %s sees result codes %s, alone on a fresh service %s", n, strings.Join(views[n], ";"), strings.Join(ref, ";"))
		}
	}
	emit(line, strings.Join(parts, " "), verdict, len(names) > 1)
}

// runIsoFTP: items "<sess>:<CMD>:<param hex>"; the reply code of every step, and the directory a 250/257 reply names
var ftpDirRe = regexp.MustCompile(`^(250 Directory changed to |257 )(.*)\r\n$`)

func runIsoFTP(sched []string) {
	lab := c03Lab()
	dirs := hexList([]string{"/", "/iso1", "/iso2"})
	line := "iso ftp " + dirs + " " + strings.Join(sched, " ")
	s := lab.byNm["ftp"]
	open := func(l *svcLab) (*stepConn, chan struct{}) {
		c := newStepConn(&net.TCPAddr{IP: net.IPv4(10, 0, 0, 1), Port: s.port}, l.clientAddr(false))
		d := make(chan struct{})
		go func() { defer close(d); l.hc.VerifHandle(c) }()
		c.quiesce(300 * time.Millisecond) // greeting
		return c, d
	}
	send := func(c *stepConn, op []string) string {
		cmd := op[0]
		if p := string(unhx(op[1])); p != "" {
			cmd += " " + p
		}
		c.push([]byte(cmd + "\r\n"))
		out := string(c.quiesce(300 * time.Millisecond))
		if len(out) < 3 {
			return "none"
		}
		if m := ftpDirRe.FindStringSubmatch(out); m != nil {
			return out[:3] + "/" + hx([]byte(m[2]))
		}
		return out[:3]
	}
	conns := map[string]*stepConn{}
	dones := map[string]chan struct{}{}
	views := map[string][]string{}
	own := map[string][][]string{}
	var names []string
	for _, it := range sched {
		p := strings.SplitN(it, ":", 3)
		n := p[0]
		if _, ok := conns[n]; !ok {
			names = append(names, n)
			conns[n], dones[n] = open(lab)
		}
		own[n] = append(own[n], p[1:])
		views[n] = append(views[n], send(conns[n], p[1:]))
	}
	closeAll := func(cs map[string]*stepConn, ds map[string]chan struct{}) {
		for n, c := range cs {
			c.clientClose()
			select {
			case <-ds[n]:
			case <-time.After(3 * time.Second):
				c.Close()
			}
		}
	}
	closeAll(conns, dones)
	verdict := "ok"
	var parts []string
	for _, n := range names {
		parts = append(parts, n+"=["+strings.Join(views[n], ";")+"]")
		fresh, err := newSvcLab("ftp")
		if err != nil {
			panic(err)
		}
		ftpSetup(fresh)
		c, d := open(fresh)
		var ref []string
		for _, op := range own[n] {
			ref = append(ref, send(c, op))
		}
		closeAll(map[string]*stepConn{n: c}, map[string]chan struct{}{n: d})
		if strings.Join(ref, ";") != strings.Join(views[n], ";") && verdict == "ok" {
			verdict = fmt.Sprintf("viol:session-depends-on-others:ftp: session %s gets the replies %s, alone on a fresh service %s", n, strings.Join(views[n], ";"), strings.Join(ref, ";"))
		}
	}
	emit(line, strings.Join(parts, " "), verdict, len(names) > 1)
}

func hexDecode(s string) ([]byte, error) {
	if s == "" {
		return nil, nil
	}
	return unhx(s), nil
}

func init() {
	register(&Stream{Name: "c03iso", Gen: genC03, Replay: func(l string) {
		f := strings.Fields(l)
		if len(f) >= 3 && f[0] == "iso" && f[1] == "tftp" {
			runIsoTFTP(f[2:])
		} else if len(f) >= 4 && f[0] == "iso" && f[1] == "ftp" {
			runIsoFTP(f[3:])
		} else if len(f) >= 4 && f[0] == "iso" && f[1] == "ldap" {
			runIsoLDAP(f[2], f[3:])
		}
	}})
}

func genC03(tier string, seed uint64) {
	r := NewRng(seed ^ 0xc03)
	lab := c03Lab()
	ftpSetup(lab)
	maxPair := 30
	if tier == "thorough" {
		maxPair = 100000
	}
	for _, svc := range []string{"ftp", "telnet", "smtp", "redis", "memcached", "http"} {
		sc := isoScripts(svc, r)
		// all pairs, every interleaving (sampled beyond the bound)
		for a := 0; a < len(sc); a++ {
			for b := a + 1; b < len(sc); b++ {
				ils := interleavings([]int{len(sc[a]), len(sc[b])})
				stride := 1
				if len(ils) > maxPair {
					stride = len(ils)/maxPair + 1
				}
				for k := r.Intn(stride); k < len(ils); k += stride {
					runIso(svc, [][][]byte{sc[a], sc[b]}, ils[k])
				}
			}
		}
		// three sessions, sampled
		if len(sc) >= 3 {
			ils := interleavings([]int{min3(len(sc[0]), 3), min3(len(sc[1]), 3), min3(len(sc[2]), 3)})
			n := 12
			if tier == "thorough" {
				n = 200
			}
			for k := 0; k < n; k++ {
				runIso(svc, [][][]byte{sc[0][:min3(len(sc[0]), 3)], sc[1][:min3(len(sc[1]), 3)], sc[2][:min3(len(sc[2]), 3)]}, ils[r.Intn(len(ils))])
			}
		}
		// the same session twice at once
		runIso(svc, [][][]byte{sc[0], sc[0]}, interleavings([]int{len(sc[0]), len(sc[0])})[r.Intn(3)])
		// histories: every script as the probe after all the others
		for i := range sc {
			var earlier [][][]byte
			for k := range sc {
				if k != i {
					earlier = append(earlier, sc[k])
				}
			}
			runHist(svc, earlier, sc[i])
		}
		for n := 1; n <= 4; n++ {
			var earlier [][][]byte
			for k := 0; k < n; k++ {
				earlier = append(earlier, sc[(k+1)%len(sc)])
			}
			runHist(svc, earlier, sc[0])
		}
		// histories whose earlier sessions end in the middle of a line, command or data block: their last step cut
		// short, or an unterminated tail after a complete script (whatever they leave behind must not reach the probe)
		for i := range sc {
			var earlier [][][]byte
			for k := range sc {
				if k == i {
					continue
				}
				last := sc[k][len(sc[k])-1]
				cut := len(last) / 2
				if cut == 0 {
					cut = 1
				}
				earlier = append(earlier, append(append([][]byte{}, sc[k][:len(sc[k])-1]...), last[:cut]))
				earlier = append(earlier, append(append([][]byte{}, sc[k]...), []byte("left-over-"+word(r, 6))))
			}
			runHist(svc, earlier, sc[i])
			if i == 0 {
				// the same leftover several times in a row (pooled objects are handed over with some probability only)
				var rep [][][]byte
				for k := 0; k < 6; k++ {
					rep = append(rep, append(append([][]byte{}, sc[1][:1]...), []byte("left-over-"+word(r, 6))))
				}
				runHist(svc, rep, sc[0])
			}
		}
	}
	// ftp: login state and working directory per session, through the Lean session model too
	fop := func(c, p string) string { return c + ":" + hx([]byte(p)) }
	fsess := [][]string{
		{fop("USER", "anonymous"), fop("PASS", "anonymous"), fop("CWD", "/iso1"), fop("PWD", ""), fop("CDUP", ""), fop("PWD", "")},
		{fop("PWD", ""), fop("USER", "anonymous"), fop("PASS", "anonymous"), fop("PWD", ""), fop("CWD", "iso2"), fop("PWD", "")},
		{fop("USER", "bob"), fop("PASS", "x"), fop("CWD", "/iso1"), fop("PWD", "")},
		{fop("USER", "anonymous"), fop("PASS", "anonymous"), fop("CWD", "nope"), fop("CWD", "../.."), fop("xpwd", ""), fop("PWD", "")},
	}
	for a := 0; a < len(fsess); a++ {
		for b := a + 1; b < len(fsess); b++ {
			ils := interleavings([]int{len(fsess[a]), len(fsess[b])})
			stride := len(ils)/10 + 1
			if tier == "thorough" {
				stride = len(ils)/150 + 1
			}
			for k := r.Intn(stride); k < len(ils); k += stride {
				var sched []string
				ia, ib := 0, 0
				for _, w := range ils[k] {
					if w == 0 {
						sched = append(sched, "a:"+fsess[a][ia])
						ia++
					} else {
						sched = append(sched, "b:"+fsess[b][ib])
						ib++
					}
				}
				runIsoFTP(sched)
			}
		}
	}
	// ldap: bind state per connection; every interleaving of two sessions, sampled three
	credsHex := hexList([]string{"root:pw", "admin:secret"})
	lsess := [][]string{
		{"g", "b:" + hx([]byte("cn=root")) + ":" + hx([]byte("pw")), "g"},
		{"b:" + hx([]byte("cn=admin")) + ":" + hx([]byte("wrong")), "g", "b:" + hx([]byte("cn=admin")) + ":" + hx([]byte("secret")), "g"},
		{"g", "g"},
		{"b:" + hx([]byte("cn=root")) + ":" + hx([]byte("pw")), "b:-:-", "g"},
	}
	for a := 0; a < len(lsess); a++ {
		for b := a + 1; b < len(lsess); b++ {
			ils := interleavings([]int{len(lsess[a]), len(lsess[b])})
			stride := len(ils)/12 + 1
			if tier == "thorough" {
				stride = 1
			}
			for k := r.Intn(stride); k < len(ils); k += stride {
				var sched []string
				ia, ib := 0, 0
				for _, w := range ils[k] {
					if w == 0 {
						sched = append(sched, "a:"+lsess[a][ia])
						ia++
					} else {
						sched = append(sched, "b:"+lsess[b][ib])
						ib++
					}
				}
				runIsoLDAP(credsHex, sched)
			}
		}
	}
	// tftp: uploads of several clients, datagram interleavings; clients that share a port or an IP
	nm := func(i int) string { return fmt.Sprintf("10.%d.%d.%d", 20+r.Intn(200), r.Intn(250), 1+r.Intn(250)) + ":" + itoa(i) }
	for round := 0; round < 6; round++ {
		pa, pb := 2000+r.Intn(1000), 2000+r.Intn(1000)
		if round%2 == 0 {
			pb = pa // different clients, same source port
		}
		a, b := nm(pa), nm(pb)
		na, nb := hx([]byte(word(r, 8))), hx([]byte(word(r, 8)))
		sa := []string{a + ":w:" + na + ":" + hx([]byte("octet")), a + ":d:1:" + hx(r.Bytes(512)), a + ":d:2:" + hx(r.Bytes(r.Intn(100)))}
		sb := []string{b + ":w:" + nb + ":" + hx([]byte("netascii")), b + ":d:1:" + hx(r.Bytes(r.Range(1, 200)))}
		if round == 5 {
			sb = []string{b + ":d:1:" + hx(r.Bytes(10)), b + ":r:" + nb + ":" + hx([]byte("octet"))}
		}
		ils := interleavings([]int{len(sa), len(sb)})
		for _, il := range ils {
			// fresh addresses per interleaving (the per-IP rate limit allows four datagrams)
			a2, b2 := nm(pa), nm(pb)
			var sched []string
			ia, ib := 0, 0
			for _, k := range il {
				if k == 0 {
					sched = append(sched, strings.Replace(sa[ia], a, a2, 1))
					ia++
				} else {
					sched = append(sched, strings.Replace(sb[ib], b, b2, 1))
					ib++
				}
			}
			runIsoTFTP(sched)
		}
	}
}

func min3(a, b int) int {
	if a < b {
		return a
	}
	return b
}
