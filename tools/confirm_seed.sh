#!/bin/bash
# usage: tools/confirm_seed.sh <seed src dir (patch.diff, demo.sh, demo files, notes.md)> <id> <property> "<needs>" "<checks that catch it>"
# Confirms in a scratch worktree of /repo HEAD: demo passes without the change; with it: builds, tests of touched
# packages (+ server) pass, demo fails.  On success stores /verif/seeded/<id>/ with a patch regenerated against HEAD.
src="$1"; id="$2"; prop="$3"; needs="$4"; caught="$5"
export GOFLAGS=-mod=mod GOPROXY=off GOSUMDB=off GOTOOLCHAIN=local
wt=/tmp/wtc-$$
git -C /repo worktree add -q --detach $wt HEAD || exit 2
trap 'git -C /repo worktree remove --force '$wt' 2>/dev/null; rm -rf '$wt EXIT
log() { echo "[$id] $*"; }
(cd $wt && bash "$src/demo.sh" $wt >/tmp/demo0-$$.log 2>&1); d0=$?
log "demo without change: exit $d0"
cd $wt
if git apply --check "$src/patch.diff" 2>/dev/null; then git apply "$src/patch.diff"; else patch -p1 -F3 -s --no-backup-if-mismatch < "$src/patch.diff" || { log "patch does not apply"; exit 3; }; fi
git diff > /tmp/rebased-$$.diff
pk=$(git diff --name-only | xargs -n1 dirname | sort -u | sed 's#^#./#' | tr '\n' ' ')
go build ./... ; b=$?
log "build with change: exit $b"
if [ -n "$TESTCMD" ]; then
  # a package whose baseline run already has failing/hanging tests (services/ja3/crypto/tls): caller gives the command
  eval "$TESTCMD" > /tmp/test-$$.log 2>&1; t=$?; pk="[$TESTCMD] "
else
  go test -vet=off -count=1 $pk ./server/... > /tmp/test-$$.log 2>&1; t=$?
fi
log "tests ($pk ./server/...): exit $t"; grep -E "^(FAIL|---)" /tmp/test-$$.log | head
(bash "$src/demo.sh" $wt >/tmp/demo1-$$.log 2>&1); d1=$?
log "demo with change: exit $d1"
git checkout -q -- . ; git clean -fdq
if [ $d0 -eq 0 ] && [ $b -eq 0 ] && [ $t -eq 0 ] && [ $d1 -ne 0 ]; then
  dst=/verif/seeded/$id; mkdir -p $dst
  cp /tmp/rebased-$$.diff $dst/patch.diff
  for f in "$src"/*; do case "$(basename $f)" in patch.diff) ;; *) cp "$f" $dst/;; esac; done
  python3 - "$dst" "$id" "$prop" "$needs" "$caught" "$pk" <<'PY'
import json,sys
dst,id_,prop,needs,caught,pk=sys.argv[1:7]
json.dump({"id":id_,"property":prop,"needs_to_manifest":needs,
 "confirmed":{"repo_head":"HEAD at confirmation","demo_without_change":"exit 0","build_with_change":"go build ./... ok",
  "tests_with_change":"go test -vet=off -count=1 %s./server/... pass"%pk,"demo_with_change":"exit non-zero (property break observed)"},
 "ran":"tools/confirm_seed.sh (scratch worktree of /repo HEAD, removed afterwards)","caught_by":caught},open(dst+"/meta.json","w"),indent=1)
PY
  log "CONFIRMED -> $dst"
else
  log "NOT CONFIRMED"; tail -5 /tmp/demo0-$$.log /tmp/demo1-$$.log
fi
rm -f /tmp/demo0-$$.log /tmp/demo1-$$.log /tmp/test-$$.log /tmp/rebased-$$.diff
