#!/bin/bash
# usage: tools/seedtest.sh <patch.diff> [-R] <Cxx> [Cxx...]   — apply a change to /repo, run the checks, undo it
patch="$1"; shift
rev=""; if [ "$1" = "-R" ]; then rev="-R"; shift; fi
cd /repo || exit 2
if [ -n "$(git status --porcelain)" ]; then echo "/repo not clean"; exit 2; fi
if git apply $rev --check "$patch" 2>/dev/null; then git apply $rev "$patch"
elif patch -p1 $rev -F3 --dry-run -s < "$patch" >/dev/null 2>&1; then patch -p1 $rev -F3 -s --no-backup-if-mismatch < "$patch"
else echo "PATCH-DOES-NOT-APPLY $patch"; exit 3; fi
git status --short | head -5
cd /verif
for p in "$@"; do
  ./check "$p" --tier "${TIER:-quick}" 2>&1 | grep -E "^(VIOLATION|KNOWN-FINDING|C[0-9]+ )" | cut -c1-300
done
git -C /repo reset -q --hard HEAD; git -C /repo clean -fdq; git -C /repo status --short | head -3
