#!/usr/bin/env python3
"""Regenerates MANIFEST.json from lib/props.py (run by hand after adding a check)."""
import json, os, sys
sys.path.insert(0, os.path.dirname(os.path.abspath(__file__)))
from props import PROPS, MANIFEST_TEXT, NOT_APPLICABLE, HOOK_COMMITS

V = os.path.dirname(os.path.dirname(os.path.abspath(__file__)))
checks = []
for pid in sorted(PROPS):
    t = MANIFEST_TEXT[pid]
    checks.append(dict(
        property_id=pid,
        quick_cmd="./check %s --tier quick" % pid,
        thorough_cmd="./check %s --tier thorough" % pid,
        evidence_file="/verif/evidence/%s.json" % pid,
        replay_cmd_template="./check %s --replay {path}" % pid,
        engine="lean4-proof+correspondence",
        level_claimed=dict(category="proof", text=t["text"], design_ref=t["design_ref"]),
        level_note=t["note"],
        technique=t["technique"],
    ))
m = dict(
    version=1,
    setup_cmd="./check --setup",
    hooks=dict(
        guard="verif",
        enable="go build -tags verif (the harness module replaces github.com/honeytrap/honeytrap with /repo)",
        baseline_off_cmd="cd /repo && go test -mod=mod -json -vet=off -count=1 -timeout 25m ./...",
        source_commits=HOOK_COMMITS,
        add_only=True,
    ),
    engines=[dict(name="lean4-proof+correspondence", path="/verif/check",
                  serves_properties=sorted(PROPS),
                  kind_free_text="Lean 4 theorems about executable models (lean/HT), tied to /repo by a "
                                 "differential correspondence run (Go harness vs compiled Lean driver) and by "
                                 "facts regenerated from the source; property oracles search for failing inputs")],
    checks=checks,
    not_applicable=[dict(property_id=k, reason=v) for k, v in sorted(NOT_APPLICABLE.items()) if k not in PROPS],
    notes="See DESIGN.md. known-findings.txt lists recorded findings and fixed defects.",
)
json.dump(m, open(os.path.join(V, "MANIFEST.json"), "w"), indent=1)
print("wrote MANIFEST.json with", len(checks), "checks")
