"""Per-property configuration: which Lean modules carry the obligations, which harness
streams tie the model to the code, and the text that goes into the evidence."""

COMMON_TB = [
    "Lean 4.33.0 kernel (axioms allowed in property theorems: propext, Classical.choice, Quot.sound)",
    "hand-written Lean model of the anchored Go code (lean/HT/Model), tied to /repo's working tree by the "
    "correspondence run of this check (Go harness built with -tags verif against /repo, same case lines "
    "through the compiled Lean driver, outputs diffed)",
    "Go harness generators/canonicalisers/oracles (harness/*.go) and lib/ht.py",
]

PROPS = {
    "C17": dict(
        modules=["HT.Props.C17", "HT.Props.C17Ipp", "HT.Props.GenC17"],
        streams=["c17dec", "c17ipp"],
        gen=True,
        rule="decoder: all op sequences up to the tier's length bound over 32 ops x boundary buffers of "
             "length 0..6 run on the implementation with the oracle (sequences <= 2 also through the Lean "
             "model), plus seeded random long sequences/large buffers; a case is non-trivial when at least "
             "one read/copy/data op fits (reaches the value path); distinct = distinct case line. "
             "IPP: requests from an encoder written in the harness (not the service's): every ordered pair of attribute "
             "kinds adjacent with 1..3 values before every delimiter, seeded requests over 5 operations, 1..3 groups, "
             "0..6 attributes of every supported tag, 1..3 values, strings 0..300 (any bytes), documents up to 64 KiB, "
             "through the real ippMsg.decode (verif hook) and through the real service Handle over HTTP on a loopback "
             "TCP pair (reply body + event fields); malformed stream: every truncation of small requests, missing end "
             "tag, byte mutations, random bytes; all through the Lean decoder/handler too; non-trivial = well-formed "
             "request that decoded",
        trusted=COMMON_TB + ["Go int modelled as unbounded Int (C17_int_overflow_irrelevant covers the guard)",
                             "verif hook services/ipp/verif_hooks.go (renders the decoded message)",
                             "IPP model reads from the remaining-bytes list in Option: the decoder's sticky error is "
                             "returned by ippMsg.decode, so 'some read failed' = 'decode fails' (checked by the malformed stream)",
                             "net/http request parsing and response writing around the IPP body (library)"],
        assumptions=["memory safety of the Go runtime slice primitives"],
    ),
    "C02": dict(
        modules=["HT.Props.C02"],
        streams=["c02parse", "c02loop"],
        rule="parsers: field-boundary enumeration (IHL 0..15 x total length around header/buffer bounds x actual "
             "length; TCP data offset 0..15, every option layout up to 3 (quick) / 4 (thorough) option bytes over a "
             "boundary alphabet placed at the end of the option area; UDP length vs actual; ICMP < 8) plus seeded "
             "random bytes, each through the real parser and the Lean parser; receive loop: frame batches, scripted "
             "connections with every post-handshake flag sequence up to length 2/3, no-ARP peers and a full state "
             "table through the real Start() loop of a Canary on a socketpair in a child process, followed by a UDP "
             "probe; non-trivial = parser accepted the frame / child reached the probe; distinct = distinct case line",
        trusted=COMMON_TB + ["verif hook listener/canary/verif_hooks_linux.go (constructor on a socketpair, handler "
                             "injection, table fill)",
                             "modelled, not verified: UDP/ICMP handlers beyond their parse+isMe filter (their "
                             "goroutines recover), Go runtime, kernel epoll/socket behaviour"],
        assumptions=["frames shorter than 14 bytes are never delivered by the kernel",
                     "ARP handling is unreachable (doARP cannot be set from the configuration)"],
    ),
    "C14": dict(
        modules=["HT.Props.C14", "HT.Props.C14Handoff"],
        gen=True,
        streams=["c14tcp"],
        rule="scripted TCP clients against the real handleTCP (synchronous injection through the verif hook): client "
             "ISN boundary set x segment plans x FIN variants, server ISS boundary values via sequence-space rebase, "
             "no-ARP and route-fallback peers, pairs of simultaneous connections (port-swapped, same ports/different "
             "peers) under all (thorough) or every 5th (quick) interleaving of their steps, seeded random 1..4 "
             "connections with malformed noise frames; every emitted frame decoded independently and checked; the six "
             "ports whose handler reports the first bytes (23, 443, 139, 445, 1433, 6379; category checked), ports 80/9200 "
             "(request parsed and answered: @canhttp, oracle only: reply segments' sequence numbers and checksums), "
             "connections steered (hooks) so that checksum sums fold twice, and @canhandoff: 9 x 250 connections whose "
             "first pushed segment follows the handshake without pause (races of the receive loop with the handler "
             "goroutines); the two-goroutine hand-off itself is a Lean model (HT.Handoff, all schedules) tied to the "
             "source by the regenerated channel capacity; "
             "non-trivial = handshake completed; distinct = distinct case line",
        trusted=COMMON_TB + ["verif hook listener/canary/verif_hooks_linux.go",
                             "hand-off model (HT.Handoff): the goroutines' steps are atomic at the granularity buffer check / park / "
                             "channel operation, Go's channel semantics (a non-blocking send succeeds iff a receiver is parked or the "
                             "buffer has room) are assumed; the ring buffer's own lack of synchronisation is outside the model",
                             "modelled, not verified: Go scheduler (handler goroutine run to completion at its wake-up), "
                             "ring-buffer data race between receive loop and handler, decoded-port protocol handlers"],
        assumptions=["server ISS boundary values are reached by rebasing the connection's send sequence space through "
                     "the hook (the drawn value is not steerable)"],
    ),
    "C20": dict(
        modules=["HT.Props.C20"],
        streams=["c20set", "c20knock"],
        rule="container: every op sequence of length <= 5 (quick) / 6 (thorough) over 13 ops on 3 keys + one alias "
             "(add, remove, count, find, each with no-op / remove-visited / remove-other callbacks) on the real "
             "UniqueSet with the set-semantics oracle (length <= 4 also through the Lean model) + seeded longer "
             "sequences; detector: probe bursts (TCP SYN, UDP, ICMP; repeated ports; 1..4 interleaved sources; two "
             "bursts; a 150-probe burst spanning more than 5 s) through the real handlers and the real "
             "knockDetector with real 5 s ticks, a second idle tick awaited; non-trivial = each over >= 2 items "
             "with a mutating callback / a burst reached the tick; distinct = distinct case line",
        trusted=COMMON_TB + ["verif hook listener/canary/verif_hooks_linux.go",
                             "real-time constants (5 s tick) are waited for, not changed"],
        assumptions=["the tick is modelled as an explicit event; the harness produces it by staying idle for 5 s"],
    ),
    "C07": dict(
        modules=["HT.Props.C07"],
        streams=["c07rot"],
        rule="rotating file: every sequence of <= 2 (quick) / 3 (thorough) writes over 24 boundary batch shapes around "
             "max size 1024 through the real OpenRotateFile/Write in a temp dir and through the Lean model; "
             "pre-existing files at/beyond the limit; seeded longer sequences (<= 8 writes, sizes 1024/4096/1 MiB, "
             "several rotations within one second, external removal); raw unaligned writes; end-to-end New/Send with "
             "the real 1 s flush; unwritable destination; oracle reads every file back; non-trivial = at least one "
             "rotation happened; distinct = distinct case line; 1 MiB cases are implementation+oracle only",
        trusted=COMMON_TB + ["modelled, not verified: the OS file system (rename, append, stat), time.Now, "
                             "encoding/json producing one newline-terminated line per event, the writer goroutine's "
                             "select loop (batching)"],
        assumptions=["a batch handed to Write is a concatenation of newline-terminated lines without interior newlines",
                     "'sending never blocks forever' is checked by the correspondence run only"],
    ),
    "C06": dict(
        modules=["HT.Props.C06"],
        streams=["c06bus"],
        rule="filter wiring: every single filter over 6 channel lists x 10 category lists x 10 service lists, "
             "structured two-filter configurations (unrestricted after restricted and vice versa, shared channels), "
             "seeded configurations of 0..4 filters over <= 3 channels, each with a stream of events whose "
             "category/service are matching, non-matching, missing and non-string; through the real Run() wiring "
             "(verif constructor, capture channels registered through pushers.Register), bus Send; oracle = Go regexp "
             "reference per channel + token check; non-trivial = a channel received some but not all possible "
             "deliveries; distinct = distinct case line",
        trusted=COMMON_TB + ["verif hook server/verif_hooks.go", "Go regexp (matching is a parameter of the theorems)",
                             "BurntSushi/toml decoding of the configuration"],
        assumptions=["the model's matcher covers alternatives of optionally anchored literals (the harness alphabet)"],
    ),
    "C08": dict(
        modules=["HT.Props.C08"],
        streams=["c08route", "c08sock"],
        rule="dispatch: 13 service lists (0..4 services mixing detector-less and prefix-detector stubs) x 8 first "
             "payloads (satisfying none/one/several detectors, empty, 3000 bytes) x segmentations (whole, cuts at "
             "1..5/middle/last/1024/1025, byte-wise), address matching cases (wildcard/specific/udp/unmatched), seeded "
             "random lists and segmentations, tcp over net.Pipe and udp datagram connections, through the real "
             "handle()/findService and both connection wrappers; stub services record what they read; non-trivial = "
             "several candidates; distinct = distinct case line",
        trusted=COMMON_TB + ["verif hook server/verif_hooks.go", "net.Pipe as the connection (real sockets in the thorough tier)"],
        assumptions=["'the first bytes the client sent' = the bytes of the first read (<= 1024), which is what detectors are shown"],
    ),
    "C19": dict(
        modules=["HT.Props.C19"],
        streams=["c19ports"],
        rule="port configuration: tcp/<n> for every n in 0..65537 (thorough) or every 97th plus both ends (quick), a "
             "28-string malformed/well-formed set singly and in all ordered pairs (first wins), service lists with "
             "defined/undefined/duplicate/empty names, port+ports, seeded configurations of 1..4 entries each followed by "
             "a connection to a listened address; through the real Run() with a recording listener; oracle = independent "
             "reference parser/deduplicator; non-trivial = at least one address listened on; distinct = distinct case line",
        trusted=COMMON_TB + ["verif hook server/verif_hooks.go", "net.ResolveTCPAddr/UDPAddr for IP literals",
                             "BurntSushi/toml decoding"],
        assumptions=["host parts are IP literals or empty (host names need the resolver and are outside the model)"],
    ),
    "C10": dict(
        gen=True,
        modules=["HT.Props.C10", "HT.Props.GenC10"],
        streams=["c10svc"],
        rule="the four real services (through services.Get, connection wrapped as the server wraps it, replies "
             "recorded by the datagram connection): every request kind alone in bursts of 1..6/50/200, seeded mixes "
             "from 1..3 interleaved source IPs over varying ports, memcached multi-command datagrams, an exhausted "
             "source followed by a fresh one, 48 concurrent first datagrams from fresh sources (oracle only), and "
             "golang.org/x/time/rate under a synthetic clock vs the exact bucket; non-trivial = more than 4 "
             "datagrams / times; distinct = distinct case line",
        trusted=COMMON_TB + ["golang.org/x/time/rate modelled as an exact integer token bucket (compared under a synthetic "
                             "clock on every run, away from exact refill instants)",
                             "request kinds -> (Allow, Write) structure table HT.Lim.kindCmds, validated by the run"],
        assumptions=["refill over real 10-minute intervals is validated only at the library level with synthetic time",
                     "window = any interval shorter than the limiter interval"],
    ),
    "C13": dict(
        modules=["HT.Props.C13"],
        streams=["c13ja3"],
        rule="ClientHello messages from a structural generator (legacy versions SSL3..TLS1.2, 1..40 suites incl. GREASE, "
             "near-GREASE and SCSV values, 0..20 extensions incl. unknown, duplicated, GREASE-typed, empty bodies, "
             "supported-groups with GREASE, 0..3 point formats, with/without SNI, malformed bodies of the three "
             "extensions the fingerprint reads, record-layer fragmentation) encoded to bytes and fed to the real vendored "
             "tls.Server (GetConfigForClient records JA3(), JA3Digest(), ServerName); the same structured hello through "
             "the Lean model; four hellos through the real https service for the event fields; oracle = independent "
             "JA3 reference + crypto/md5; non-trivial = accepted hello with extensions; distinct = distinct case line",
        trusted=COMMON_TB + ["crypto/md5 (the digest function is a parameter of the theorems)",
                             "modelled, not verified: TLS record layer and the fixed part of the hello (covered by the "
                             "byte-level correspondence only)"],
        assumptions=["at most one supported-groups and one point-formats extension (the specification is silent otherwise)"],
    ),
    "C12": dict(
        modules=["HT.Props.C12"],
        streams=["c12auth"],
        gen=True,
        rule="ssh-simulator (real x/crypto/ssh client over loopback TCP): 17 credential sets (empty, wildcard, pairs incl. "
             "empty user/password, malformed entries) x the 16 user/password attempts; ldap: the same sets x all 16 single "
             "binds with DN spellings (cn=, sn=, ',rest') and seeded sequences of 1..4 binds, a gated operation "
             "(add/modify/delete/modifyDN/compare) probed before and after every bind; ftp: USER/PASS pairs over 5x4 values "
             "with gated file/directory command probes around them, seeded command sequences, and every gated command "
             "before any login; events checked for every attempt; non-trivial = a non-empty credential set / more than "
             "one operation; distinct = distinct case line",
        trusted=COMMON_TB + ["extract/ (go/ast) regenerating HT.Gen.ftpCommands from services/ftp/cmd.go on every run",
                             "golang.org/x/crypto/ssh, go-asn1-ber (library parsing, not modelled)"],
        assumptions=["'succeeds' = the connection becomes authenticated; the ldap anonymous bind (empty name and password) "
                     "is answered with success and authenticates nobody; ftp's credential set is its fixed user table"],
    ),
    "C05": dict(
        modules=["HT.Props.C05"],
        streams=["c05ev"],
        rule="event constructors: every 1-byte payload and every 7th (quick) / every (thorough) 2-byte payload, payloads of "
             "3..65536 bytes incl. a small one right after a large one, seeded payloads; source/destination address options "
             "over tcp/udp/other x IPv4/IPv6 x ports; MergeFrom/CopyFrom over all pairs of subsets of 4 keys (incl. empty "
             "values) and a typed merge; every case marshalled with MarshalJSON and ToMap and parsed back; all events "
             "captured while running service scenarios of C10/C12/C13 marshalled; non-trivial = non-empty argument; "
             "distinct = distinct case line",
        trusted=COMMON_TB + ["encoding/json, encoding/hex (compared, not modelled)"],
        assumptions=["JSON serialisability of stored value types is established by marshalling every captured event, not by a theorem"],
    ),
    "C11": dict(
        modules=["HT.Props.C11"],
        streams=["c11path"],
        rule="filepath.Clean on every string over {a,b,.,/} up to length 7 (quick) / 8 (thorough) and seeded Join pairs vs "
             "the Lean port; the real Htfs.RealPath/ChangeDir on a real directory tree (root/{a,b}/{a,b}/…, sentinel tree "
             "beside the root) for every path of up to 4 (quick) / 5 (thorough) components over {a,b,..,.,''}, absolute and "
             "relative, from every reachable working directory, plus long/odd paths; seeded FTP command sequences (CWD, CDUP, "
             "PWD, MKD, RMD, DELE, RNFR+RNTO, SIZE, MDTM) through the real service with the sentinel tree digested before and "
             "after; non-trivial = the path contains '..'; distinct = distinct case line",
        trusted=COMMON_TB + ["Lean port of path/filepath Clean/Join (compared exhaustively on the small alphabet every run)",
                             "the OS file system; root assumed free of symlinks leaving it"],
        assumptions=["containment is lexical", "data-connection commands (STOR/APPE/RETR/LIST/NLST) are covered through "
                     "RealPath at the driver level, not over the wire"],
    ),
    "C18": dict(
        modules=["HT.Props.C18"],
        streams=["c18id"],
        rule="token: data directories prepared in every state a kill can leave (token file absent, empty, every proper "
             "prefix of a token), the complete file, over-long / wrong-alphabet / trailing-newline contents, and tokens as "
             "the generator produces them, each followed by 2..5 real starts (server.New with WithDataDir+WithToken); "
             "key-value identities: restart histories of child processes on one data dir with varying service sets, the "
             "key-without-certificate state prepared through the storage API, first starts killed at seeded instants; "
             "non-trivial = a pre-existing token file / more than one start; distinct = distinct case line",
        trusted=COMMON_TB + ["verif hook server/verif_hooks.go (read the token)", "badger Set atomic and durable; rename atomic "
                             "(assumed)", "xid generates well-formed ids (assumed)"],
        assumptions=["crash points of the key-value items are the states between atomic Sets"],
    ),
    "C16": dict(
        modules=["HT.Props.C16", "HT.Props.C16Write"],
        gen=True,
        streams=["c16agent"],
        rule="agent sessions against the real session loop (verif hook) over a loopback TCP pair: one connection with "
             "0..20 data messages of 0..4000 bytes; missing eof, data for unknown connections, data after eof, duplicate "
             "hello, ping, udp relay; every interleaving (thorough) / every 4th (quick) of two connections' message "
             "sequences for six address-pair shapes incl. look-alike pairs (10.0.0.1:22+21.2.3.4 vs 10.0.0.1:222+1.2.3.4) "
             "and IPv6; seeded 1..4 connections with random interleavings, >= 2 left open at disconnect; the model side "
             "also encodes the messages and re-parses the byte stream with the Lean codec; codec round trips of every "
             "message type (agentcodec: Hello, EOF, ReadWriteTCP/UDP with payloads 0..65000 around the 4096-byte buffer "
             "multiples, Handshake, HandshakeResponse with 0..255 addresses) compared with the Lean encoder/decoder byte for "
             "byte; the stub services answer with reply streams written in chunk plans up to 200000 bytes and the payloads "
             "tagged with the pair must concatenate to them; message sizes of one Write compared with the model's chunks; "
             "non-trivial = at least one connection announced; distinct = distinct case line",
        trusted=COMMON_TB + ["verif hook listener/agent/verif_hooks.go",
                             "libdisco transport replaced by a plain TCP pair (noise handshake and encryption not exercised)",
                             "github.com/honeytrap/protocol encoder/decoder (library, compared through the codec runs)"],
        assumptions=["the session model is sequential; the reader wake-up hand-off is observed, not modelled"],
    ),
}

PROPS["C04"] = dict(
    gen=True,
    modules=["HT.Props.C04", "HT.Props.C04Http", "HT.Props.C04Redis", "HT.Props.C04HttpOnce", "HT.Props.C04OneOnce", "HT.Props.C04Ldap", "HT.Props.C04LdapOnce", "HT.Props.C04Chunked", "HT.Props.C04ChunkedOnce", "HT.Props.C04ChunkedExactly", "HT.Props.GenC04"],
    streams=["c04seg"],
    rule="services configured on a real Honeytrap (real Run(): construction, port table, bus, filter -> capture channel), "
         "connections handed to the real handle() (findService, timeout wrapper, recover) over a scripted connection whose "
         "Read returns exactly one client segment: per service (ftp, telnet, memcached, redis, smtp incl. DATA and BDAT, http "
         "with content-length bodies and, as segc cases against the chunked-body machine, chunked bodies) grammar-generated dialogues delivered in one piece, one write per command "
         "(pipelined and lock-step), at every single cut point (all for short streams, a stride for long ones), sampled "
         "multi-cut, one byte per read, and cut short; mutated/raw streams; datagrams to dns, tftp, snmp, counterstrike, echo "
         "and memcached-udp from distinct sources through the dispatcher; each through the Lean framing machine / datagram "
         "decoder with the same segments (dns, snmp: oracle only); the one-request services elasticsearch, docker, eos, "
         "ethereum, cwmp (seg1: one generated request per connection, body sizes around the 1024-byte recording limit, every "
         "cut near the head/body boundary and a stride elsewhere, multi-cut, streams cut short) against the Lean one-request "
         "machine, ldap message sequences (seg ldap: bind, delete, compare, unbind; every single cut, one byte per read) against the Lean BER framing machine, ipp as @req (oracle only); oracle: events equal those of the same bytes in one piece and the list computed from the commands "
         "as generated; non-trivial = at least one event; distinct = distinct case line",
    trusted=COMMON_TB + ["verif hook server/verif_hooks.go (VerifNew, VerifHandle)",
                         "scripted in-memory connection instead of a kernel socket (segment = what one Read returns)",
                         "modelled, not verified: bufio/textproto/net/mail/net/http library behaviour below the calls the "
                         "handlers make (compared through the runs); telnet line editing beyond printable ASCII, CR, LF; "
                         "smtp STARTTLS and header blocks beyond simple 'Key: value' lines are outside the model (oracle only)",
                         "ldap model: BER identifiers with high tag numbers, indefinite lengths, more than four length bytes and the "
                         "StartTLS extended request are outside the model and never sent by model-compared cases; message ids below 2^63",
                         "one-request services: request targets are compared as sent (no URL re-serialisation differences in the generated targets)"],
    assumptions=["rate limiters never refuse in these runs (one datagram per source address): a datagram the limiter drops is "
                 "C10's subject, not C04's",
                 "lines shorter than bufio.Scanner's 64 KiB token limit (redis)"],
)

PROPS["C03"] = dict(
    modules=["HT.Props.C03", "HT.Props.C03Framed"],
    streams=["c03iso"],
    rule="one Honeytrap with ftp, telnet, smtp, redis, memcached, http, ldap and tftp configured (real Run()); sessions "
         "with distinct fake client addresses on step-driven in-memory connections, the harness releasing one "
         "request at a time and waiting until the handler is blocked reading again, so an interleaving is a "
         "deterministic global order: per stream service every interleaving of every pair of 3 scripted sessions "
         "(sampled beyond the tier's bound), sampled interleavings of three, the same script twice at once, and "
         "histories of 1..4 earlier sessions then a probe; each session's transcript (per step) and events (all "
         "fields but volatile ones) compared with the same session alone on a freshly built service; tftp: every "
         "interleaving of two clients' upload datagrams, clients sharing a source port; ldap: every (sampled) "
         "interleaving of two connections' bind/modify sequences; ftp: (sampled) interleavings of login / CWD / CDUP / PWD "
         "sequences - these three also through the Lean session models; "
         "non-trivial = more than one session; distinct = distinct case line",
    trusted=COMMON_TB + ["verif hook server/verif_hooks.go (VerifNew, VerifHandle)",
                         "step-driven in-memory connections (request/response granularity); goroutine interleavings "
                         "inside one step are the Go scheduler's and are not enumerated",
                         "modelled, not verified: the session steps of the stream services other than ldap's bind state and ftp's "
                         "login/working-directory state (their isolation is decided by the oracle runs, the theorem covers "
                         "the keyed-table shape)"],
    assumptions=["the ftp filesystem content and the per-IP rate limiters are shared by design (configuration-level state)"],
)

PROPS["C09"] = dict(
    gen=True,
    modules=["HT.Props.C09", "HT.Props.GenC09"],
    streams=["c09rel"],
    rule="all 25 lab services on one real Honeytrap; connections through the real handle() over loopback TCP sockets "
         "(server side presented with the service's port) and datagram connections: per service 5-9 inputs (nothing, "
         "CRLF, random bytes, an HTTP request, generated dialogues whole and cut in half, protocol-specific prefixes "
         "incl. FTP passive-mode requests never connected to) x client close / half-close, histories of 3..12 (quick) or "
         "200 (thorough) sequential connections; measured: time from the client's close to handle() returning (bound 3 s), "
         "honeytrap goroutines by creating function and /proc/self/fd before and after; silence at every stage (all TCP "
         "services at once): handle() must return after the 30 s idle timeout; model-compared: the read loop over the real "
         "DummyUDPConn for every datagram length 0..40 x buffer sizes and sampled large ones, and the ftp session ledger "
         "(reporter and passive-port goroutines during and after) for every command string up to length 2 (quick) / 4 "
         "(thorough) over PASV/connect/LIST/NOOP and sampled longer ones; non-trivial = at least one connection / "
         "non-empty datagram / command",
    trusted=COMMON_TB + ["verif hook server/verif_hooks.go (VerifNew, VerifHandle)",
                         "goroutine attribution by stack frames of runtime.Stack; descriptor count from /proc/self/fd",
                         "modelled, not verified: only the datagram read loop and the ftp/smtp resource ledgers have Lean "
                         "models; for the other services the property is decided by the measurements alone",
                         "the 30 s idle timeout is the kernel's socket deadline (server/timeout_conn.go), observed not modelled"],
    assumptions=["a handler blocked in a library call without deadline outside the connection (none found) would only show in the runs"],
)

PROPS["C01"] = dict(
    modules=["HT.Props.C01", "HT.Props.C01Bounds"],
    streams=["c01proc"],
    rule="lab child process = this harness binary running a real Honeytrap (VerifNew) with the real socket listener on "
         "loopback ports, all 25 lab services, the real Run() accept loop; the parent sends scenarios over real sockets: "
         "per service generated dialogues, protocol-specific legal-but-unusual sequences (directory changes after login, "
         "ipp without end tag, vnc pixel-format change then update request, ssh channel requests with short payloads "
         "over a real authenticated ssh session, tftp writers), their truncations and mutations, raw bytes; one write / "
         "byte-by-byte / half-close; 1..4 (128 for tftp) concurrent connections; after every scenario: child alive "
         "(exit status, panic:/fatal error: banner on stderr) and a fresh echo connection served; heap in use of the "
         "child sampled twice while the client is idle; model-compared: the strings the real exec-request handler decodes "
         "from payloads with every tail length; non-trivial = non-empty input",
    trusted=COMMON_TB + ["verif hook server/verif_hooks.go (VerifNew)",
                         "fatal errors that need a race (concurrent map access) are provoked by concurrency, not enumerated: "
                         "a run can miss them",
                         "modelled, not verified: the services themselves; only the recover boundary, the ssh payload loop, "
                         "the redis nesting bound (C04 model) and the ipp loops (C17 model) have Lean models"],
    assumptions=["inputs up to the explored sizes (quick: a few KiB per connection; the stack-exhaustion input of 24 MB is a thorough-tier case)"],
)

PROPS["C15"] = dict(
    modules=["HT.Props.C15"],
    streams=["c15proxy"],
    rule="a real Honeytrap with http-proxy, copy (tcp and udp), dns-proxy and forward directors (with and without a port "
         "in the host, the port-less one shared by two services) against fixtures run by the harness on loopback: an "
         "HTTP backend that records every request and answers with scripted replies written in split segments, TCP and "
         "UDP backends that record and answer, decoy listeners; client connections through the real handle() on the "
         "scripted connection: generated request sequences (7 methods, targets with queries, 0..10 headers incl. "
         "repeated names, bodies 0..64 KiB with content-length or chunked) in one piece, one write per request "
         "(pipelined and lock-step), single cuts (stride) and triple cuts; arbitrary streams and datagrams; replies up "
         "to 64 KiB; ssh: logins through the proxy to a real ssh backend run by the harness (accepted and rejected "
         "passwords, env/pty-req/exec/shell requests, channel data 0..64 KiB each way, client finishing before the backend); "
         "compared: backend received vs client sent, client received vs backend sent, events per request "
         "naming the client, decoys untouched, connections per backend; requests/streams/dial targets also through the "
         "Lean models; non-trivial = the backend received something",
    trusted=COMMON_TB + ["verif hook server/verif_hooks.go (VerifNew, VerifHandle)",
                         "modelled, not verified: net/http request re-serialisation and reply parsing, and the whole ssh proxy "
                         "(golang.org/x/crypto/ssh on both legs) - their fidelity is decided by the fixtures, not by a Lean model",
                         "the harness's fixtures and their own use of net/http to parse what the proxy sent"],
    assumptions=["the backend answers every request (a backend that stalls is C09's subject)"],
)

HOOK_COMMITS = ["0596fc6", "c47bf54", "a8020ca", "beeea88", "49bef1d", "2596f07", "b167354", "6ba6667"]

NOT_BUILT = "check not built yet in this round (design in DESIGN.md section 7); not claimed until its theorems and correspondence stream exist"
NOT_APPLICABLE = {("C%02d" % i): NOT_BUILT for i in range(1, 21)}

MANIFEST_TEXT = {
    "C15": dict(
        text="Lean theorems: the stream relay writes exactly the concatenation of what it read for every segmentation; the "
             "forward director's target is the configured host with the configured port or else the connection's own port - "
             "a function of configuration and connection only (counterexample: a director that remembers its first "
             "target); the http proxy's request framing (head up to the empty line, Content-Length body) is a monotone "
             "progressing machine, so which requests are relayed and in which order is the same for every segmentation and "
             "pipelining (corollary of the C04 theorem). Tied to the code by backend fixtures: requests and bytes received "
             "by the backend, replies received by the client, events, decoy listeners.",
        design_ref="DESIGN.md section 7, C15 and section 11",
        note="Partial: equality of request/reply content through net/http's re-serialisation, and the ssh proxy's relaying "
             "of credentials, requests and channel data, are decided by the backend fixtures on generated traffic, not proved.",
        technique="Lean 4 proof (relay exactness, director target, monotone request framing) + differential correspondence + backend-fixture oracle",
    ),
    "C01": dict(
        text="Lean theorems: confinement - for any number of connections and service goroutines ending in any order, if every "
             "ending is a return or a panic under a recover the process is alive, has closed every connection and reported "
             "every recovered panic, and one fatal error or one panic outside a recover ends it for good (so the property "
             "reduces to the absence of those, which the lab looks for); the ssh request-payload loop ends for every "
             "payload (and span for ever before the fix); the ipp group loop yields at most one group per input byte for every "
             "input (C01_ipp_groups_bounded) and the redis parser refuses to descend below its level bound. Tied to the code by a lab child process running the real accept "
             "loop on loopback sockets, checked for survival and service after every scenario, heap sampled while idle, and "
             "by the decoded exec strings of real ssh sessions compared with the model.",
        design_ref="DESIGN.md section 7, C01 and section 11",
        note="Partial: absence of fatal errors/unrecovered panics in the services is established by exploration (grammar, "
             "mutation, concurrency), not by proof; data races are provoked probabilistically.",
        technique="Lean 4 proof (confinement by induction over endings, loop termination) + process-level exploration with liveness probe",
    ),
    "C09": dict(
        text="Lean theorems: the read loop over a datagram connection ends after at most length+1 reads for every datagram "
             "and buffer size (and, with the connection as it was, never ends for any); the ledger of goroutines and "
             "listening sockets of an ftp session is balanced for every command sequence (any number of passive-mode "
             "requests, connected or not) and bounded by 2/1 while it runs; any history of balanced sessions leaves "
             "nothing; the old ftp/smtp ledgers grow without bound. Tied to the code by read-loop runs on the real "
             "DummyUDPConn and ledger runs on real ftp sessions; all services: time-to-return, goroutine and descriptor "
             "accounting over histories of connections, and silence until the idle timeout.",
        design_ref="DESIGN.md section 7, C09 and section 11",
        note="Partial: termination and release of the handlers other than the modelled loops/ledgers is measured on the "
             "explored inputs, not proved; scheduler- and kernel-level behaviour (deadlines, descriptor reuse) is observed.",
        technique="Lean 4 proof (bounded termination by induction, balanced-ledger invariant) + differential correspondence + runtime resource accounting",
    ),
    "C03": dict(
        text="Lean theorem: for every service whose sessions share at most a table with one slot per key and whose steps "
             "touch only their own local state and their own key's slot, under every schedule (any number of sessions, any "
             "interleaving at step granularity, any history before) a session whose key no other session has sees exactly "
             "what it sees alone on a fresh service (induction over the schedule); the tftp upload table (keyed by client "
             "address), the ldap per-connection bind state, the ftp per-session login/working-directory state and - with segments "
             "as steps - every per-connection framing machine of C04 (ftp command log, smtp, http, ...) are instances, the last "
             "giving: under any interleaving of segments each connection produces the events of its own stream in one piece; counterexample theorems record the two defect "
             "shapes (one slot for everybody: ldap as it was; a key two clients share). Tied to the real services by "
             "deterministic step-level interleavings of scripted sessions through the real dispatcher, each session's "
             "transcript and events compared with its solo run on a freshly built service.",
        design_ref="DESIGN.md section 7, C03 and section 11",
        note="Partial: the schedule is at request/response granularity; races inside one step (Go scheduler) are not "
             "enumerated. ftp/smtp/telnet/redis/memcached/http session semantics are not modelled in Lean: their isolation "
             "is decided by the oracle on the explored interleavings, the theorem gives the shape that guarantees it.",
        technique="Lean 4 proof (non-interference by induction over schedules) + differential correspondence + solo-run oracle",
    ),
    "C04": dict(
        text="Lean theorems: for every framing machine whose unit parser is monotone (a parse that succeeded succeeds "
             "identically when more bytes follow) and progresses, every segmentation of a byte stream - any number of "
             "segments, any cut points - yields the events, state and unconsumed bytes of the stream delivered in one "
             "piece (C04_segmentation_independence, induction over segments and drain steps); the ftp, telnet, memcached, "
             "redis (RESP arrays of any nesting) and smtp (state functions, DATA dot-reader, BDAT) handlers are such "
             "machines; ftp/telnet/memcached/redis/http: any command or request sequence yields exactly one event per command in order with its "
             "fields (memcached: the first 80 bytes of the value, whatever it contains; redis: arrays of bulk strings of any "
             "length, decimal lengths rendered and re-read by a proved digit round trip). Tied to the real services by runs "
             "through the real dispatcher over every single cut point of generated dialogues.",
        design_ref="DESIGN.md section 7, C04 and section 11",
        note="Partial: the exactly-once theorems are proved for ftp, telnet, memcached, redis and http (method, target, first "
             "1024 body bytes; any other headers, content-length bodies); for smtp the segmentation theorem is proved and the "
             "event list is checked by the correspondence and the oracle; http headers/host/chunked bodies, dns and snmp "
             "datagrams are judged by the oracle only. "
             "Library parsing (textproto, net/mail, net/http) is modelled, not verified.",
        technique="Lean 4 proof (parser-combinator monotonicity, induction over segmentations) + differential correspondence",
    ),
    "C16": dict(
        text="Lean theorems: every message type decodes to what was encoded (any address length, port, payload < 65536) and "
             "a frame is parsed off the stream exactly; for every message sequence (any interleaving of any number of "
             "connections) the connections of an address pair hold exactly what the messages carrying that pair's addresses "
             "alone produce, in order; eof touches no other pair; disconnect ends all. Tied to the real session loop and codec.",
        design_ref="DESIGN.md section 7, C16",
        note="Partial: the session model is sequential; goroutine hand-off (lost wake-up) is exercised by the runs and was "
             "repaired by a fix commit, not proved absent. libdisco is not exercised.",
        technique="Lean 4 proof (codec round trip, projection/commutation over the table) + differential correspondence",
    ),
    "C18": dict(
        text="Lean theorems: for every content of the token file (absent, empty, any prefix, garbage) a start comes up with a "
             "well-formed token and every later start, whatever it generates, reports the same one (induction over restart "
             "histories); stored secrets never change; after a kill at any point between the atomic stores of key and "
             "certificate the next start completes the pair with the stored key and is stable from then on. Tied to "
             "WithToken by runs on prepared data directories and to the storage functions by child-process restart histories.",
        design_ref="DESIGN.md section 7, C18",
        note="Partial: badger's and the kernel's crash consistency are assumed; kills of a starting child at random instants "
             "are sampled, not enumerated.",
        technique="Lean 4 proof (case analysis + induction over restart histories) + differential correspondence on prepared crash states",
    ),
    "C11": dict(
        text="Lean theorems on path component lists: cleaning a rooted path leaves no empty/./.. component; RealPath of any "
             "path argument from any clean working directory is the root's components followed by such components (inside the "
             "root); the working directory after any ChangeDir, and by induction after any sequence of directory changes, is "
             "again clean. The Lean port of filepath.Clean/Join is compared with Go's exhaustively on a small alphabet and the "
             "real Htfs/FTP service is run against a sentinel tree on every check.",
        design_ref="DESIGN.md section 7, C11",
        note="Trusted: Lean kernel; HT.Path port of path/filepath; the OS. Lexical containment only (no symlinks).",
        technique="Lean 4 proof (invariant over the Clean fold, induction over command sequences) + exhaustive differential correspondence",
    ),
    "C05": dict(
        text="Lean theorems: hex decode . hex encode = id for every byte string; the payload option stores a hex field that "
             "decodes to the data and a length field equal to its length; tcp/udp address options store the connection's ip "
             "and port, other kinds nothing; MergeFrom keeps every existing key with its value (any type), CopyFrom overwrites; "
             "stored keys = map keys, each once. Tied to event/*.go by differential runs incl. JSON round trips; events captured "
             "from real service scenarios are marshalled with both channel code paths.",
        design_ref="DESIGN.md section 7, C05",
        note="Partial: 'every emitted event serialises' rests on the correspondence run (encoding/json is not modelled).",
        technique="Lean 4 proof (round trip, map algebra) + differential correspondence incl. JSON round trip",
    ),
    "C12": dict(
        text="Lean theorems: the ssh callback accepts iff the wildcard or exactly the presented pair is configured, with no "
             "state between attempts; an ldap bind is answered success iff the wildcard or name:password (name as evaluated) "
             "is configured, independently of the connection state, and authenticates exactly then; gated ldap operations "
             "stay refused through any sequence of failed binds; ftp PASS logs in iff the pair is in the user table; every "
             "file/directory command of the command table regenerated from cmd.go requires authentication and the "
             "dispatcher refuses such commands while nobody is logged in; only a 230 changes the login state.",
        design_ref="DESIGN.md section 7, C12",
        note="Trusted: Lean kernel; model HT.Auth; the go/ast extractor for the FTP command table; x/crypto/ssh and the BER "
             "library; harness. Event clause checked by the correspondence oracle only.",
        technique="Lean 4 proof over decision functions + regenerated command table (decide) + differential correspondence",
    ),
    "C13": dict(
        text="Lean theorems: for every well-formed hello the JA3 string computed from its wire-form extension list equals "
             "the specification's (version, suites, extension types, curves, point formats in wire order, GREASE removed "
             "from suites, extensions and curves), hence so does any digest of it; the specification's string is invariant "
             "under removing all GREASE values; the recorded server name is the SNI sent. Includes decode/encode round "
             "trips of the three extension bodies. Tied to the vendored TLS stack by byte-level differential runs.",
        design_ref="DESIGN.md section 7, C13",
        note="Trusted: Lean kernel; model HT.JA3; crypto/md5; harness encoder/reference. Record layer and fixed hello "
             "fields are exercised by the correspondence only.",
        technique="Lean 4 proof (fold over the extension list, body round trips) + differential correspondence",
    ),
    "C10": dict(
        text="Lean theorems over an exact token-bucket model: per datagram replies <= granted Allow calls and each grant "
             "consumes one token; by induction over any time-ordered datagram history one source IP receives at most burst "
             "replies in any window shorter than the interval; what a source receives is a function of its own datagrams only. "
             "Tied to the four real services by differential reply counts and to x/time/rate by a synthetic-clock comparison.",
        design_ref="DESIGN.md section 7, C10",
        note="Trusted: Lean kernel; model HT.Lim; x/time/rate (compared, not verified); harness. sync.Map atomicity of "
             "LoadOrStore is exercised by the concurrent first-datagram scenario (oracle only).",
        technique="Lean 4 proof (conservation invariant over histories) + differential correspondence",
    ),
    "C06": dict(
        text="Lean theorem: for every configuration and event stream, what a configured channel receives is exactly, and in "
             "exactly this order, one copy per event per filter occurrence naming it that admits the event (regex matching a "
             "parameter); unconfigured channels receive nothing; absent lists admit everything; filters not naming a channel "
             "do not influence it. Tied to the real Run() wiring by a differential run with a Go-regexp reference oracle.",
        design_ref="DESIGN.md section 7, C06",
        note="Trusted: Lean kernel; model HT.Srv (wire/send); Go regexp; toml decoding; harness.",
        technique="Lean 4 proof (list algebra over flatMap/filter) + differential correspondence through Run()",
    ),
    "C08": dict(
        text="Lean theorems: single service shortcut; with several services the chosen one is the first without detector or "
             "whose detector accepts the peeked bytes; it is one of the port's services; the byte stream the chosen service "
             "reads equals the client's stream for every segmentation (peek buffer first, then the rest); pairwise-incomparable "
             "port keys give at most one match for a concrete local address. Tied to the real handle()/findService.",
        design_ref="DESIGN.md section 7, C08",
        note="Trusted: Lean kernel; model HT.Srv (findService, peek view); harness stub services; net.Pipe semantics.",
        technique="Lean 4 proof + differential correspondence through handle()",
    ),
    "C19": dict(
        text="Lean theorems: the port parser accepts exactly decimal numerals <= 65535; each port string adds at most one row "
             "and only if it parses, names a defined service and no earlier row is compatible; later entries only append "
             "(first wins); table keys are pairwise incompatible; rows name only defined services; findService reaches only the "
             "entry's services. Tied to the real Run() port loop via a recording listener and an independent reference oracle.",
        design_ref="DESIGN.md section 7, C19",
        note="Trusted: Lean kernel; model HT.Srv (toAddr incl. net.SplitHostPort port, addPort); toml; net.Resolve*Addr on literals.",
        technique="Lean 4 proof (fold invariants) + differential correspondence through Run()",
    ),
    "C07": dict(
        text="Lean theorems over the rotating-file model: after any history of writes the rotated files followed by the "
             "active file contain exactly the bytes written in order (nothing lost, duplicated or altered); if whole lines "
             "are written every file consists of whole lines; a file exceeds the maximum only as a single line; the loop's "
             "measure shows termination; a rotated name is never one that exists. Tied to rotatefile.go by differential "
             "runs on a real temp directory with an independent read-back oracle.",
        design_ref="DESIGN.md section 7, C07",
        note="Partial: 'sending never blocks forever' and the 1 s batching loop live in the writer goroutine; they are "
             "exercised end-to-end (incl. unwritable destination) but not proved.",
        technique="Lean 4 proof (fold/fuel induction, invariants) + differential correspondence on a real file system",
    ),
    "C20": dict(
        text="Lean theorems: Each visits exactly the items present at its start once each whatever the callback does; add "
             "keeps the set unique and is idempotent; for every knock history there is exactly one group per "
             "source/destination that knocked and its port list is duplicate-free and contains exactly the protocol/port "
             "pairs that source probed; at the idle tick every group is reported once and removed, so no later tick "
             "repeats it. Model tied to unique-set.go exhaustively and to the real detector with real ticks.",
        design_ref="DESIGN.md section 7, C20",
        note="Trusted: Lean kernel; hand model HT.Knock; harness; verif hook. The select/time.After loop is modelled as "
             "explicit knock/tick events.",
        technique="Lean 4 proof (fold invariants over knock histories) + exhaustive/real-time differential correspondence",
    ),
    "C02": dict(
        text="Lean theorems: every parser of the raw listener is total; one receive-loop step returns for every frame of "
             ">= 14 bytes in every listener state and configuration (full table, no ARP entry included); by induction the "
             "loop survives every frame history, and a UDP probe the listener accepts is accepted after every history. "
             "Model tied to the code by parser-level differential runs and by child-process runs of the real Start() loop.",
        design_ref="DESIGN.md section 7, C02",
        note="Trusted: Lean kernel; hand models HT.Pkt/HT.Can; harness; verif hook. UDP/ICMP handler bodies run in "
             "recovering goroutines and are modelled only up to their parse+isMe filter.",
        technique="Lean 4 proof (totality + induction over frame histories) + differential correspondence",
    ),
    "C14": dict(
        text="Lean theorems over UInt32 sequence arithmetic: SYN-ACK acknowledges ISN+1; the handshake ACK establishes the "
             "connection for every server ISS (incl. the two that wrap); acks are exact modulo 2^32 by induction over the "
             "segment list; FIN (with or without data) is answered; lookup returns only a state with the segment's 4-tuple; "
             "a step changes only that connection's slot. Model tied to the real handleTCP/send by frame-exact differential runs.",
        design_ref="DESIGN.md section 7, C14",
        note="Partial: the handler goroutine hand-off (flush signal vs. Read) and the ring buffer race are scheduler "
             "behaviour the sequential model cannot exhibit; decoded-port handlers are not modelled.",
        technique="Lean 4 proof over UInt32 step function + frame-exact differential correspondence",
    ),
    "C17": dict(
        text="Lean theorems: for every buffer, every in-bounds cursor and every operation sequence of any length with "
             "any integer arguments the decoder model never faults and keeps 0<=offset<=len; reads that fit return the "
             "big-endian value and advance, reads that do not fit return 0, set the error and consume nothing. The model "
             "is tied to services/decoder by an exhaustive small-space + sampled differential run on every check. IPP: every "
             "well-formed request of any size (any number of groups, attributes, values; any document) decodes to exactly "
             "what was encoded (C17_ipp_roundtrip, induction over groups/attributes/values with the one-byte look-ahead); "
             "the reply decodes to the request's version and id with the charset/language group first; a print job's URI, "
             "user, job name and document reach the event unchanged. Tied to services/ipp by decode renderings and whole-"
             "service HTTP runs on every check.",
        design_ref="DESIGN.md section 7, C17",
        note="Trusted: Lean kernel; hand model HT.Dec of decoder.go (compared with the real decoder on every run); "
             "harness oracle; Go int as Int (overflow lemma); hand model HT.Ipp of services/ipp (compared on every run).",
        technique="Lean 4 proof over hand model + differential correspondence",
    ),
}
