"""Per-property configuration: which Lean modules carry the obligations, which harness
streams tie the model to the code, and the text that goes into the evidence."""

COMMON_TB = [
    "Lean 4.33.0 kernel (axioms allowed in property theorems: propext, Classical.choice, Quot.sound)",
    "hand-written Lean model of the anchored Go code (lean/HT/Model), tied to /repo's working tree by the "
    "correspondence run of this check (Go harness built with -tags verif against /repo, same case lines "
    "through the compiled Lean driver, outputs diffed)",
    "Go harness generators/canonicalisers/oracles (harness/*.go) and lib/ht.py",
]

PROPS = {
    "C17": dict(
        modules=["HT.Props.C17"],
        streams=["c17dec"],
        gen=False,
        rule="decoder: all op sequences up to the tier's length bound over 32 ops x boundary buffers of "
             "length 0..6 run on the implementation with the oracle (sequences <= 2 also through the Lean "
             "model), plus seeded random long sequences/large buffers; a case is non-trivial when at least "
             "one read/copy/data op fits (reaches the value path); distinct = distinct case line",
        trusted=COMMON_TB + ["Go int modelled as unbounded Int (C17_int_overflow_irrelevant covers the guard)"],
        assumptions=["memory safety of the Go runtime slice primitives"],
    ),
}

HOOK_COMMITS = []

NOT_BUILT = "check not built yet in this round (design in DESIGN.md section 7); not claimed until its theorems and correspondence stream exist"
NOT_APPLICABLE = {("C%02d" % i): NOT_BUILT for i in range(1, 21)}

MANIFEST_TEXT = {
    "C17": dict(
        text="Lean theorems: for every buffer, every in-bounds cursor and every operation sequence of any length with "
             "any integer arguments the decoder model never faults and keeps 0<=offset<=len; reads that fit return the "
             "big-endian value and advance, reads that do not fit return 0, set the error and consume nothing. The model "
             "is tied to services/decoder by an exhaustive small-space + sampled differential run on every check.",
        design_ref="DESIGN.md section 7, C17",
        note="Trusted: Lean kernel; hand model HT.Dec of decoder.go (compared with the real decoder on every run); "
             "harness oracle; Go int as Int (overflow lemma). IPP part: see evidence/DESIGN.",
        technique="Lean 4 proof over hand model + differential correspondence",
    ),
}
