"""Orchestration for the honeytrap Lean-4 verification checks (python3 stdlib only).

Pipeline of one check (see DESIGN.md section 3):
  extract  -> regenerate lean/HT/Gen/*.lean from the repository's current sources
  prove    -> lake build the property's theorem module, audit axioms
  correspond -> build the Go harness against the repository (tag verif), run its
              streams, feed the same case lines to the Lean driver, diff
  oracle   -> every implementation output carries the verdict of the property's
              executable oracle (computed by the harness from behaviour alone)
  decide   -> VIOLATION / KNOWN-FINDING lines, replay files, evidence json
"""
import fcntl
import hashlib
import json
import os
import re
import shutil
import subprocess
import sys
import time

VERIF = os.path.dirname(os.path.dirname(os.path.abspath(__file__)))
REPO = os.environ.get("HT_REPO", "/repo")
LEAN = os.path.join(VERIF, "lean")
HARNESS = os.path.join(VERIF, "harness")
# the harness binary of this run: one per property, so that checks of different properties can run side by side (the
# child processes of C01, C02 and C18 re-execute it)
HARNESS_BIN = os.path.join(os.path.join(VERIF, "build"), "harness")
EXTRACT = os.path.join(VERIF, "extract")
BUILD = os.path.join(VERIF, "build")
REPLAYS = os.path.join(VERIF, "replays")
EVIDENCE = os.path.join(VERIF, "evidence")
CORPUS = os.path.join(VERIF, "corpus")
KNOWN = os.path.join(VERIF, "known-findings.txt")

ALLOWED_AXIOMS = {"propext", "Classical.choice", "Quot.sound"}
FORBIDDEN = re.compile(
    r"\bsorry\b|\badmit\b|^\s*axiom\s|native_decide|bv_decide|implemented_by|\bunsafe\s|maxHeartbeats\s+0\b|ofReduceBool",
    re.M)

GOENV = dict(GOFLAGS="-mod=mod", GOPROXY="off", GOSUMDB="off", GOTOOLCHAIN="local",
             CGO_ENABLED="0")


def log(*a):
    print(*a, file=sys.stderr, flush=True)


def env_go():
    e = dict(os.environ)
    e.update(GOENV)
    return e


class Lock:
    def __init__(self, name):
        os.makedirs(BUILD, exist_ok=True)
        self.path = os.path.join(BUILD, name + ".lock")

    def __enter__(self):
        self.f = open(self.path, "w")
        fcntl.flock(self.f, fcntl.LOCK_EX)
        return self

    def __exit__(self, *a):
        fcntl.flock(self.f, fcntl.LOCK_UN)
        self.f.close()


def run(cmd, cwd=None, env=None, timeout=None, stdin=None, input=None):
    t0 = time.time()
    p = subprocess.run(cmd, cwd=cwd, env=env, timeout=timeout, stdin=stdin, input=input,
                       stdout=subprocess.PIPE, stderr=subprocess.PIPE)
    return p.returncode, p.stdout, p.stderr, time.time() - t0


# --------------------------------------------------------------------------
# building
# --------------------------------------------------------------------------

def write_if_changed(path, content):
    try:
        if open(path).read() == content:
            return False
    except OSError:
        pass
    os.makedirs(os.path.dirname(path), exist_ok=True)
    with open(path, "w") as f:
        f.write(content)
    return True


def prepare_go_module(moddir):
    tmpl = open(os.path.join(moddir, "go.mod.tmpl")).read()
    write_if_changed(os.path.join(moddir, "go.mod"), tmpl.replace("@REPO@", REPO))
    shutil.copyfile(os.path.join(REPO, "go.sum"), os.path.join(moddir, "go.sum"))


def build_harness():
    """Build the Go harness against REPO's working tree with -tags verif.
    Returns (ok, message)."""
    with Lock("go"):
        prepare_go_module(HARNESS)
        outp = HARNESS_BIN
        if os.path.exists(outp):
            os.remove(outp)          # never run a stale binary
        rc, so, se, dt = run(["go", "build", "-tags", "verif", "-o", outp, "."], cwd=HARNESS,
                             env=env_go(), timeout=900)
        if rc != 0:
            return False, (so + se).decode(errors="replace")
        return True, "built in %.1fs" % dt


def build_extract():
    with Lock("go"):
        outp = os.path.join(BUILD, "extract")
        rc, so, se, dt = run(["go", "build", "-o", outp, "."], cwd=EXTRACT, env=env_go(), timeout=600)
        if rc != 0:
            return False, (so + se).decode(errors="replace")
        return True, "ok"


def run_extract():
    """Regenerate lean/HT/Gen/*.lean from REPO.  Returns (ok, message)."""
    ok, msg = build_extract()
    if not ok:
        return False, "extractor does not build: " + msg
    gen = os.path.join(LEAN, "HT", "Gen")
    tmp = os.path.join(BUILD, "gen.%d" % os.getpid())
    shutil.rmtree(tmp, ignore_errors=True)
    os.makedirs(tmp)
    rc, so, se, dt = run([os.path.join(BUILD, "extract"), REPO, tmp], timeout=300)
    msg = (so + se).decode(errors="replace")
    if rc != 0:
        # keep the previous generated files (other properties' models still build); the caller reports the
        # broken tie for the properties that rest on generated facts
        shutil.rmtree(tmp, ignore_errors=True)
        return False, msg
    with Lock("lean"):
        os.makedirs(gen, exist_ok=True)
        names = set(os.listdir(tmp))
        for n in os.listdir(gen):
            if n.endswith(".lean") and n not in names:
                os.remove(os.path.join(gen, n))      # delete stale generated files
        for n in names:
            write_if_changed(os.path.join(gen, n), open(os.path.join(tmp, n)).read())
    shutil.rmtree(tmp, ignore_errors=True)
    return rc == 0, msg


def leanchecker(module, timeout=1800):
    """lake env leanchecker <Module>: the toolchain's independent re-checker of the compiled .olean"""
    with Lock("lean"):
        rc, so, se, dt = run(["lake", "env", "leanchecker", module], cwd=LEAN, timeout=timeout)
    return rc == 0, (so + se).decode(errors="replace"), dt


def lake_build(targets, timeout=3000):
    with Lock("lean"):
        rc, so, se, dt = run(["lake", "build"] + targets, cwd=LEAN, timeout=timeout)
    return rc == 0, (so + se).decode(errors="replace"), dt


def strip_lean_comments(src):
    out = []
    i, n, depth = 0, len(src), 0
    while i < n:
        if src.startswith("/-", i):
            depth += 1
            i += 2
        elif depth and src.startswith("-/", i):
            depth -= 1
            i += 2
        elif depth:
            if src[i] == "\n":
                out.append("\n")
            i += 1
        elif src.startswith("--", i):
            while i < n and src[i] != "\n":
                i += 1
        else:
            out.append(src[i])
            i += 1
    return "".join(out)


def forbidden_tokens():
    """grep the whole Lean tree (outside comments) for constructs that are not accepted."""
    hits = []
    for root, _, files in os.walk(LEAN):
        if ".lake" in root:
            continue
        for f in files:
            if f.endswith(".lean"):
                p = os.path.join(root, f)
                src = strip_lean_comments(open(p).read())
                for m in FORBIDDEN.finditer(src):
                    line = src.count("\n", 0, m.start()) + 1
                    hits.append("%s:%d: %s" % (os.path.relpath(p, VERIF), line, m.group(0).strip()))
    return hits


def obligations_of(module):
    """Theorem names listed in the `/- OBLIGATIONS … -/` block of a property file."""
    path = os.path.join(LEAN, *module.split(".")) + ".lean"
    src = open(path).read()
    m = re.search(r"/-\s*OBLIGATIONS\s*\n(.*?)-/", src, re.S)
    if not m:
        return []
    return [l.strip() for l in m.group(1).splitlines() if l.strip() and not l.strip().startswith("--")]


def audit_axioms(module, names):
    """Returns dict name -> (ok, axioms or error text) using `#print axioms`."""
    os.makedirs(BUILD, exist_ok=True)
    f = os.path.join(BUILD, "audit_%s_%d.lean" % (module.replace(".", "_"), os.getpid()))
    with open(f, "w") as fh:
        fh.write("import %s\n" % module)
        for n in names:
            fh.write("#print axioms %s\n" % n)
    rc, so, se, dt = run(["lake", "env", "lean", f], cwd=LEAN, timeout=900)
    os.remove(f)
    text = (so + se).decode(errors="replace")
    res = {}
    for n in names:
        m = re.search(r"'%s' depends on axioms: \[(.*?)\]" % re.escape(n), text, re.S)
        if m:
            ax = [a.strip() for a in m.group(1).replace("\n", " ").split(",") if a.strip()]
            bad = [a for a in ax if a not in ALLOWED_AXIOMS]
            res[n] = (not bad, ax)
        elif re.search(r"'%s' does not depend on any axioms" % re.escape(n), text):
            res[n] = (True, [])
        else:
            res[n] = (False, ["<not found: %s>" % text.strip()[:300]])
    return res


# --------------------------------------------------------------------------
# known findings
# --------------------------------------------------------------------------

def load_known():
    """known-findings.txt ->  {prop: {signature: text}}, fixed list"""
    findings, fixed = {}, []
    if os.path.exists(KNOWN):
        for l in open(KNOWN):
            l = l.strip()
            if l.startswith("finding:"):
                m = re.match(r"finding:\s+property=(\S+)\s+signature=(\S+)\s+exemplar=(\S+)\s+(.*)", l)
                if m:
                    findings.setdefault(m.group(1), {})[m.group(2)] = (m.group(3), m.group(4))
            elif l.startswith("fixed:"):
                fixed.append(l)
    return findings, fixed


# --------------------------------------------------------------------------
# streams
# --------------------------------------------------------------------------

class StreamResult:
    def __init__(self, name):
        self.name = name
        self.cases = 0              # records produced by the harness
        self.model_cases = 0        # of which compared with the Lean model
        self.impl_only = 0          # additional cases run on the implementation + oracle only
        self.distinct_nontrivial = 0
        self.viol = {}              # signature -> list of (case, impl, detail)
        self.diffs = []             # (case, impl, model)
        self.samples = []
        self.stats = {}
        self.error = None
        self.wall = 0.0
        self.order = []

    def context(self, case, n=40):
        """the case lines run (in the same process) before `case`, then `case`: failures that depend on
        earlier operations replay with their history"""
        try:
            i = self.order.index(case)
        except ValueError:
            return [case]
        return self.order[max(0, i - n):i + 1]


def run_stream(name, tier, seed, replay_file=None, model=True, timeout=3000, extra_env=None):
    """Run one harness stream and the Lean driver on the same case lines."""
    res = StreamResult(name)
    t0 = time.time()
    cmd = [HARNESS_BIN, name]
    if replay_file:
        cmd += ["--replay", replay_file]
    else:
        cmd += ["--tier", tier, "--seed", str(seed)]
    e = dict(os.environ)
    e.setdefault("GOMEMLIMIT", "8GiB")
    e["HT_REPO"] = REPO
    e["HT_BUILD"] = BUILD
    if extra_env:
        e.update(extra_env)
    # scratch space of the harness (data dirs, ftp roots, rotated files): under build/, removed after the stream
    scratch = os.path.join(BUILD, "tmp", "%s-%d" % (name, os.getpid()))
    shutil.rmtree(scratch, ignore_errors=True)
    os.makedirs(scratch, exist_ok=True)
    e["TMPDIR"] = scratch
    try:
        try:
            rc, so, se, dt = run(cmd, env=e, timeout=timeout)
        finally:
            shutil.rmtree(scratch, ignore_errors=True)
    except subprocess.TimeoutExpired:
        res.error = "harness stream %s timed out after %ds" % (name, timeout)
        return res
    if rc != 0:
        res.error = "harness stream %s exited %d: %s" % (name, rc, se.decode(errors="replace")[-2000:])
        # keep whatever records were produced
    recs = []
    for line in so.decode(errors="replace").split("\n"):
        if not line:
            continue
        if line.startswith("#stat "):
            k, _, v = line[6:].partition(" ")
            res.stats[k] = v
            if k.endswith("impl_only_cases"):
                try:
                    res.impl_only += int(v)
                except ValueError:
                    pass
            continue
        parts = line.split("\t")
        if len(parts) != 4:
            res.error = (res.error or "") + " malformed record: %r" % line[:200]
            continue
        recs.append(parts)
    res.cases = len(recs)
    res.order = [r[0] for r in recs]
    # model side
    model_out = {}
    mlines = [r[0] for r in recs if not r[0].startswith("@")]
    if model and mlines:
        drv = os.path.join(LEAN, ".lake", "build", "bin", "htdrv")
        if os.path.exists(drv):
            rc2, so2, se2, dt2 = run([drv], input=("\n".join(mlines) + "\n").encode(), timeout=timeout)
            outs = so2.decode(errors="replace").split("\n")
            if rc2 != 0 or len(outs) < len(mlines):
                res.error = (res.error or "") + " lean driver failed (rc=%d, %d/%d lines): %s" % (
                    rc2, len(outs), len(mlines), se2.decode(errors="replace")[-500:])
            for c, o in zip(mlines, outs):
                model_out[c] = o
            res.model_cases = len(mlines)
        else:
            res.error = (res.error or "") + " lean driver not built"
    nt = set()
    for case, impl, verdict, ntf in recs:
        if ntf == "1":
            nt.add(case)
        if verdict != "ok":
            _, sig, detail = (verdict.split(":", 2) + ["", ""])[:3]
            res.viol.setdefault(sig, []).append((case, impl, detail))
        if case in model_out and model_out[case] != impl:
            res.diffs.append((case, impl, model_out[case]))
    res.distinct_nontrivial = len(nt)
    step = max(1, len(recs) // 5)
    res.samples = [{"case": r[0][:400], "impl": r[1][:300], "model": model_out.get(r[0], "(oracle only)")[:300]}
                   for r in recs[::step][:6]]
    res.wall = time.time() - t0
    return res


def shortest(items):
    return min(items, key=lambda t: (len(t[0]), t[0]))


def write_replay(prop, kind, sig, payload):
    os.makedirs(REPLAYS, exist_ok=True)
    h = hashlib.sha1(json.dumps(payload, sort_keys=True).encode()).hexdigest()[:10]
    path = os.path.join(REPLAYS, "%s-%s-%s.json" % (prop, re.sub(r"[^A-Za-z0-9_.-]", "_", sig)[:40], h))
    payload = dict(payload)
    payload.update(property=prop, kind=kind, signature=sig,
                   replay_cmd="./check %s --replay %s" % (prop, os.path.relpath(path, VERIF)))
    with open(path, "w") as f:
        json.dump(payload, f, indent=1)
    return os.path.relpath(path, VERIF)
